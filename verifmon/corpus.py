"""
The repository's conformance corpus (features/*.feature) as a workload.

Each item: {'expr', 'feature', 'scenario', 'expected'} where expected is
('V', model value) / ('E',) / None (not decodable).  The upstream expectations are
used only to calibrate the harness's reference model, never as a verdict on the
implementation.
"""

from __future__ import annotations

import ast
import glob
import os
import re
from typing import Any, Dict, List

from .core import REPO

_WHEN = re.compile(r"^\s*When CEL expression (.*) is evaluated\s*$")
_VALUE = re.compile(r"^\s*Then value is (.*)$")
_ERROR = re.compile(r"^\s*Then eval_error is (.*)$")
_SCEN = re.compile(r"^\s*Scenario: (.*)$")
_GIVEN = re.compile(r"^\s*Given (\w+) ")


class _FakeTypes:
    @staticmethod
    def IntType(source=0):
        return ("int", int(source))

    @staticmethod
    def UintType(source=0):
        return ("uint", int(source))

    @staticmethod
    def DoubleType(source=0.0):
        return ("double", float(source))

    @staticmethod
    def BoolType(source=False):
        return ("bool", bool(source))

    @staticmethod
    def StringType(source=""):
        return ("string", str(source))

    @staticmethod
    def BytesType(source=b""):
        return ("bytes", bytes(source))

    @staticmethod
    def MapType(source=None):
        items = []
        for k, v in (source or {}).items():
            items.append((_mv(k), _mv(v)))
        return ("map", tuple(items))

    @staticmethod
    def ListType(source=None):
        return ("list", tuple(_mv(x) for x in (source or [])))


class _FakeCelpy:
    celtypes = _FakeTypes


def _mv(x):
    if x is None:
        return ("null", None)
    if isinstance(x, tuple) and len(x) == 2 and isinstance(x[0], str):
        return x
    if isinstance(x, list):
        return ("list", tuple(_mv(y) for y in x))
    raise ValueError(x)


def decode_value(text: str):
    try:
        v = eval(text.strip(), {"__builtins__": {}, "celpy": _FakeCelpy, "inf": float("inf"), "nan": float("nan")})
        return ("V", _mv(v))
    except Exception:
        return None


def load() -> List[Dict[str, Any]]:
    items: List[Dict[str, Any]] = []
    for path in sorted(glob.glob(os.path.join(REPO, "features", "*.feature"))):
        feature = os.path.basename(path)[:-8]
        scen = "?"
        cur = None
        givens: List[str] = []
        with open(path, encoding="utf-8") as f:
            for line in f:
                m = _SCEN.match(line)
                if m:
                    scen = m.group(1).strip()
                    cur = None
                    givens = []
                    continue
                m = _GIVEN.match(line)
                if m:
                    givens.append(m.group(1))
                    continue
                m = _WHEN.match(line)
                if m:
                    try:
                        expr = ast.literal_eval(m.group(1))
                    except Exception:
                        cur = None
                        continue
                    if not isinstance(expr, str):
                        cur = None
                        continue
                    cur = {"expr": expr, "feature": feature, "scenario": scen, "expected": None, "givens": list(givens)}
                    items.append(cur)
                    continue
                if cur is not None:
                    m = _VALUE.match(line)
                    if m:
                        cur["expected"] = decode_value(m.group(1))
                        continue
                    m = _ERROR.match(line)
                    if m:
                        cur["expected"] = ("E",)
    return items


_BUILTIN_FUNCS = None


def builtin_only(tree) -> bool:
    """True when the parsed expression uses only built-in operators, functions and macros
    and no message construction (the domain of C03)."""
    import celpy.evaluation as ev

    global _BUILTIN_FUNCS
    if _BUILTIN_FUNCS is None:
        _BUILTIN_FUNCS = {k for k in ev.base_functions if re.fullmatch(r"\w+", k)} | {"has", "dyn", "map", "filter", "all", "exists", "exists_one"}
    for sub in tree.iter_subtrees():
        if sub.data in ("member_object", "dot_ident_arg", "dot_ident"):
            return False
        if sub.data == "ident_arg" and str(sub.children[0]) not in _BUILTIN_FUNCS:
            return False
        if sub.data == "member_dot_arg" and str(sub.children[1]) not in _BUILTIN_FUNCS:
            return False
    return True
