"""
Fault localisation used to name the *mechanism* of a violation.

A violating program is re-evaluated on its closed sub-expressions in post-order;
the first sub-expression that itself fails the oracle (all of its own closed
sub-expressions pass) is the minimal witness.  The mechanism slug is built from
structural features of that node only: its kind/operator/function name, the
outcome classes of its operands, the runner and the observed/expected outcome
classes -- never from a hash or a random value.
"""

from __future__ import annotations

from typing import Any, Callable, List, Optional

from .lang import Node


def closed_subterms(n: Node, bound=frozenset()) -> List[Node]:
    """Closed sub-expressions in post-order (macro bodies are not closed -> skipped)."""
    out: List[Node] = []

    def rec(x: Node):
        if x.k == "macro":
            rec(x.a[1])  # receiver only
        elif x.k == "map":
            for kk, vv in x.a:
                rec(kk)
                rec(vv)
        elif x.k == "has":
            rec(x.a[0])
        elif x.k == "obj":
            rec(x.a[0])
            for _, vv in x.a[1]:
                rec(vv)
        else:
            for y in x.a:
                if isinstance(y, Node):
                    rec(y)
        out.append(x)

    rec(n)
    return out


def all_subterms(n: Node) -> List[Node]:
    """Every sub-expression in post-order (macro bodies included)."""
    out: List[Node] = []

    def rec(x: Node):
        for y in operands(x):
            rec(y)
        if x.k == "macro":
            rec(x.a[3])
        out.append(x)

    rec(n)
    return out


def scoped_subterms(n: Node, elements: Callable[[Node, dict], Optional[list]], extra: Optional[dict] = None, out=None, depth: int = 0):
    """Sub-expressions in post-order together with the extra bindings that close them.

    Macro bodies are entered with the iteration variable bound to concrete elements of the
    receiver (`elements(receiver_node, extra)` -> list of values, or None when unknown), so a
    fault inside a macro body can be attributed to the construct that causes it."""
    if out is None:
        out = []
    extra = extra or {}
    if n.k == "macro":
        scoped_subterms(n.a[1], elements, extra, out, depth)
        if depth < 3:
            try:
                elems = elements(n.a[1], extra)
            except Exception:
                elems = None
            for e in (elems or [])[:2]:
                inner = dict(extra)
                inner[n.a[2]] = e
                scoped_subterms(n.a[3], elements, inner, out, depth + 1)
    else:
        for y in operands(n):
            scoped_subterms(y, elements, extra, out, depth)
    out.append((n, extra))
    return out


def localize_scoped(n: Node, fails: Callable[[Node, dict], bool], elements, limit: int = 1000):
    """Like localize(), but looks inside macro bodies. Returns (node, extra bindings)."""
    subs = scoped_subterms(n, elements)
    if len(subs) > limit:
        subs = subs[-limit:]
    for s, extra in subs[:-1]:
        try:
            if fails(s, extra):
                return s, extra
        except Exception:
            continue
    return n, {}


def localize(n: Node, fails: Callable[[Node], bool], limit: int = 1000, closed: bool = True) -> Node:
    subs = closed_subterms(n) if closed else all_subterms(n)
    if len(subs) > limit:
        subs = subs[-limit:]
    for s in subs[:-1]:
        try:
            if fails(s):
                return s
        except Exception:
            continue
    return n


def oclass(out: Any) -> str:
    """Outcome class of a core.api_eval result."""
    if out[0] == "V":
        c = out[1]
        s = "V:" + str(c[0])
        from .core import contains_error_object

        if contains_error_object(c) and c[0] != "<error-object>":
            s += "{err}"
        return s
    if out[0] == "X":
        return f"X:{out[2]}@{out[1]}"
    return out[0]


import keyword

ACTIVATION_ATTRS = {"identifiers", "functions", "package", "clone", "get", "nested_activation", "resolve_variable", "resolve_function"}
PY_KEYWORDS = set(keyword.kwlist)
MACRO_NAMES = {"map", "filter", "all", "exists", "exists_one"}


def rename_python_keywords(n: Node) -> Node:
    """The same tree with every identifier / field name that is a Python keyword given a harmless spelling (for differential re-runs)."""

    def go(x):
        if isinstance(x, Node):
            if x.k == "var" and x.a[0] in PY_KEYWORDS:
                return Node("var", x.t, x.a[0] + "_kw")
            if x.k in ("field", "has") and isinstance(x.a[1], str) and x.a[1] in PY_KEYWORDS:
                return Node(x.k, x.t, go(x.a[0]), x.a[1] + "_kw", *x.a[2:])
            return Node(x.k, x.t, *[go(y) for y in x.a])
        if isinstance(x, tuple):
            return tuple(go(y) for y in x)
        if isinstance(x, list):
            return [go(y) for y in x]
        return x

    return go(n)


def has_python_keyword_name(n: Node) -> bool:
    from .lang import walk

    return any((x.k == "var" and x.a[0] in PY_KEYWORDS) or (x.k in ("field", "has") and isinstance(x.a[1], str) and x.a[1] in PY_KEYWORDS) for x in walk(n))


def head(n: Node) -> str:
    if n.k in ("bin", "un"):
        return f"{n.k} {n.a[0]}"
    if n.k in ("call", "meth"):
        if n.k == "meth" and n.a[0] in MACRO_NAMES and len(n.a) > 2 and getattr(n.a[2], "k", None) == "raw" and len(n.a[2].a) > 3 and n.a[2].a[3] == "dot_ident":
            # a macro whose iteration variable is written with a leading dot (.e): not an identifier, so no macro node was built
            return f"meth {n.a[0]}/{len(n.a) - 1}:dot-identifier-variable"
        return f"{n.k} {n.a[0]}/{len(n.a) - 1}"
    if n.k == "macro":
        return f"macro {n.a[0]}"
    if n.k == "lit":
        return f"lit {n.a[0][0]}"
    if n.k == "raw":
        return f"raw {n.a[3] if len(n.a) > 3 else '?'}"
    if n.k == "var":
        name = n.a[0]
        if name in ACTIVATION_ATTRS:
            return "var:activation-attr"
        if name in PY_KEYWORDS:
            return "var:python-keyword"
        return "var"
    if n.k == "field" and n.a[1] in PY_KEYWORDS:
        return "field:python-keyword"
    return n.k


def operands(n: Node) -> List[Node]:
    if n.k in ("bin", "un"):
        return [x for x in n.a[1:]]
    if n.k == "call":
        return list(n.a[1:])
    if n.k == "meth":
        return list(n.a[1:])
    if n.k == "macro":
        return [n.a[1]]
    if n.k == "cond":
        return list(n.a)
    if n.k in ("index",):
        return list(n.a)
    if n.k in ("field", "has"):
        return [n.a[0]]
    if n.k == "obj":
        return [n.a[0]] + [v for _, v in n.a[1]]
    if n.k == "list":
        return list(n.a)
    if n.k == "map":
        return [x for kv in n.a for x in kv]
    return []


def shape(n: Node, cls_of: Callable[[Node], str], max_ops: int = 3) -> str:
    ops = operands(n)
    classes = [cls_of(o) for o in ops]
    if n.k in ("list", "map"):
        classes = ["E"] if any(c.startswith("E") for c in classes) else (["{err}"] if any("{err}" in c for c in classes) else [])
    return head(n) + " (" + ",".join(classes[:max_ops]) + ")"


_COARSE = {
    "ListType": "list", "list": "list", "MapType": "map", "dict": "map", "StringType": "string", "str": "string", "BytesType": "bytes", "bytes": "bytes",
    "NoneType": "null", "<type>": "type", "IntType": "int", "UintType": "uint", "DoubleType": "double", "BoolType": "bool", "int": "pyint", "float": "pyfloat", "bool": "pybool",
    "TimestampType": "time", "DurationType": "time", "datetime": "time", "timedelta": "time", "<error-object>": "errobj",
}


def coarse(out: Any) -> str:
    """Coarse outcome class: E / X / list / map / string / bytes / null / type / num / bool / time / other."""
    if out[0] == "V":
        return _COARSE.get(str(out[1][0]), "other")
    if out[0] == "X":
        return "X"
    return out[0]
