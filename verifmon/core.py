"""
Shared core of the runtime-monitoring harness.

* canonical outcomes of API calls (value / CEL error / parse error / other exception)
* engine helpers (fresh Environment per call, compiled runner created first in a process)
* the per-worker result accumulator (`Acc`) that every property module fills in

Nothing here imports celpy at module import time: workers import it lazily so the
orchestrator itself never needs the repository on its path.
"""

from __future__ import annotations

import datetime
import hashlib
import json
import math
import os
import random
import struct
import sys
import time
import traceback
from typing import Any, Callable, Dict, Iterable, List, Optional, Tuple

VERIF_DIR = os.path.dirname(os.path.dirname(os.path.abspath(__file__)))
REPO = os.environ.get("VERIF_REPO", "/repo")

_celpy = None


def celpy():
    """Import celpy lazily, creating the CompiledRunner environment first.

    The parser is a process-wide singleton built for the tree class of the first
    Environment (see DESIGN.md, C05).  Every worker for a property other than C05
    creates a CompiledRunner environment first so that this history dependence
    cannot masquerade as a violation of another property.
    """
    global _celpy
    if _celpy is None:
        import celpy as _c

        _c.Environment(runner_class=_c.CompiledRunner)
        _celpy = _c
        import logging

        logging.disable(logging.CRITICAL)
    return _celpy


# --------------------------------------------------------------------------
# canonical form of values
# --------------------------------------------------------------------------

_EPOCH = datetime.datetime(1970, 1, 1, tzinfo=datetime.timezone.utc)


def dbits(f: float) -> str:
    if f != f:
        return "nan"
    return struct.pack(">d", f).hex()


def td_us(td: datetime.timedelta) -> int:
    return (td.days * 86400 + td.seconds) * 1000000 + td.microseconds


def canon(v: Any, depth: int = 0) -> Any:
    """Structural canonical form: [class-name, payload]; JSON serialisable."""
    if depth > 200:
        return ["deep"]
    if v is None:
        return ["NoneType", None]
    cls = type(v).__name__
    if isinstance(v, BaseException):
        return ["<error-object>", cls]
    if isinstance(v, type):
        return ["<type>", v.__name__]
    if isinstance(v, bool):
        return [cls, bool(v)]
    if isinstance(v, float):
        return [cls, dbits(float(v))]
    if isinstance(v, int):
        if cls == "BoolType":
            return [cls, bool(v)]
        return [cls, str(int(v))]
    if isinstance(v, str):
        return [cls, str(v)]
    if isinstance(v, (bytes, bytearray)):
        return [cls, bytes(v).hex()]
    if isinstance(v, datetime.datetime):
        try:
            if v.tzinfo is None:
                v2 = v.replace(tzinfo=datetime.timezone.utc)
            else:
                v2 = v
            return [cls, str(td_us(v2 - _EPOCH))]
        except Exception as ex:  # pragma: no cover
            return [cls, "unrepresentable:" + type(ex).__name__]
    if isinstance(v, datetime.timedelta):
        return [cls, str(td_us(v))]
    if isinstance(v, (list, tuple)):
        return [cls, [canon(x, depth + 1) for x in v]]
    if isinstance(v, dict):
        items = [[canon(k, depth + 1), canon(x, depth + 1)] for k, x in v.items()]
        items.sort(key=lambda kv: json.dumps(kv[0], sort_keys=True))
        return [cls, items]
    if callable(v):
        return ["<callable>", getattr(v, "__name__", cls)]
    try:
        r = repr(v)
    except Exception:  # pragma: no cover
        r = "?"
    return ["<other>", cls, r[:200]]


def contains_error_object(c: Any) -> bool:
    if isinstance(c, list):
        if c and c[0] == "<error-object>":
            return True
        return any(contains_error_object(x) for x in c)
    return False


def jkey(x: Any) -> str:
    return json.dumps(x, sort_keys=True, ensure_ascii=True, default=str)


def h64(x: Any) -> str:
    return hashlib.blake2b(jkey(x).encode(), digest_size=8).hexdigest()


# --------------------------------------------------------------------------
# API-boundary outcomes
# --------------------------------------------------------------------------


def runner_class(name: str):
    c = celpy()
    return {"I": c.InterpretedRunner, "C": c.CompiledRunner}[name]


def api_eval(
    runner: str,
    src: str,
    bindings: Optional[Dict[str, Any]] = None,
    *,
    annotations: Optional[Dict[str, Any]] = None,
    package: Optional[str] = None,
    functions: Any = None,
    raw: bool = False,
) -> List[Any]:
    """One Environment -> compile -> program -> evaluate; returns the canonical outcome.

    ['V', canon]                      a value
    ['E']                             the library's evaluation error
    ['P', line, column]               the library's parse error
    ['X', stage, exception-class, function-it-left-from, message]
    With raw=True the value itself / exception is appended as a last element.
    """
    c = celpy()
    try:
        env = c.Environment(
            package=package,
            annotations=dict(annotations) if annotations else None,
            runner_class=runner_class(runner),
        )
        ast = env.compile(src)
    except c.CELParseError as ex:
        out = ["P", ex.line, ex.column]
        return out + [ex] if raw else out
    except Exception as ex:
        out = ["X", "compile", type(ex).__name__, _left_from(ex), _msg(ex)]
        return out + [ex] if raw else out
    try:
        prog = env.program(ast, functions=functions)
    except c.CELEvalError as ex:
        out = ["E"]
        return out + [ex] if raw else out
    except Exception as ex:
        out = ["X", "program", type(ex).__name__, _left_from(ex), _msg(ex)]
        return out + [ex] if raw else out
    try:
        v = prog.evaluate(bindings if bindings is not None else {})
    except c.CELEvalError as ex:
        out = ["E"]
        return out + [ex] if raw else out
    except Exception as ex:
        out = ["X", "evaluate", type(ex).__name__, _left_from(ex), _msg(ex)]
        return out + [ex] if raw else out
    out = ["V", canon(v)]
    return out + [v] if raw else out


_PROGS: Dict[Any, Any] = {}


def eval_cached(runner: str, src: str, bindings: Dict[str, Any]) -> List[Any]:
    """Like api_eval for a closed-form source evaluated with many different bindings:
    the program is built once per (runner, source) and re-evaluated (re-evaluation with new
    bindings is itself part of the documented API)."""
    c = celpy()
    key = (runner, src)
    prog = _PROGS.get(key)
    if prog is None:
        try:
            env = c.Environment(runner_class=runner_class(runner))
            prog = env.program(env.compile(src))
        except c.CELParseError as ex:
            return ["P", ex.line, ex.column]
        except c.CELEvalError:
            return ["E"]
        except Exception as ex:
            return ["X", "program", type(ex).__name__, _left_from(ex), _msg(ex)]
        if len(_PROGS) > 500:
            _PROGS.clear()
        _PROGS[key] = prog
    try:
        v = prog.evaluate(bindings)
    except c.CELEvalError:
        return ["E"]
    except Exception as ex:
        return ["X", "evaluate", type(ex).__name__, _left_from(ex), _msg(ex)]
    return ["V", canon(v)]


def _msg(ex: BaseException) -> str:
    try:
        return str(ex)[:160]
    except Exception:
        return "<unprintable>"


def _left_from(ex: BaseException) -> str:
    """Name of the innermost celpy/xlate function the exception travelled through."""
    tb = ex.__traceback__
    last = "?"
    while tb is not None:
        fn = tb.tb_frame.f_code.co_filename
        if "/celpy/" in fn or "/xlate/" in fn or fn == "<string>":
            last = os.path.basename(fn) + ":" + tb.tb_frame.f_code.co_name
        tb = tb.tb_next
    return last


# --------------------------------------------------------------------------
# worker-side accumulator
# --------------------------------------------------------------------------


class Acc:
    """What a worker observed.  Merged by the orchestrator."""

    MAX_VIOL = 400

    def __init__(self) -> None:
        self.evaluations = 0
        self.cells: Dict[str, int] = {}
        self.nontrivial: set = set()
        self.samples: List[Any] = []
        self.violations: List[Dict[str, Any]] = []
        self.viol_count = 0
        self.viol_by_slug: Dict[str, int] = {}
        self.hooks: Dict[str, int] = {}
        self.inconclusive: List[str] = []
        self.extra: Dict[str, Any] = {}
        self.exhaustive: List[str] = []

    def cell(self, *parts: Any) -> None:
        k = "|".join(str(p) for p in parts)
        self.cells[k] = self.cells.get(k, 0) + 1

    def nt(self, case: Any) -> None:
        self.nontrivial.add(h64(case))

    def hook(self, name: str, n: int = 1) -> None:
        self.hooks[name] = self.hooks.get(name, 0) + n

    def sample(self, case: Any, limit: int = 6) -> None:
        if len(self.samples) < limit:
            self.samples.append(case)

    def violation(self, slug: Optional[str], what: str, case: Dict[str, Any]) -> None:
        """slug: mechanism identifier computed from structural features, or None."""
        self.viol_count += 1
        key = slug or "<unclassified>"
        n = self.viol_by_slug.get(key, 0)
        self.viol_by_slug[key] = n + 1
        # keep a few witnesses per slug, all slugs
        if n < 5 and len(self.violations) < self.MAX_VIOL:
            self.violations.append({"slug": slug, "what": what, "case": case})

    def to_json(self) -> Dict[str, Any]:
        return {
            "evaluations": self.evaluations,
            "cells": self.cells,
            "nontrivial": sorted(self.nontrivial),
            "samples": self.samples,
            "violations": self.violations,
            "viol_count": self.viol_count,
            "viol_by_slug": self.viol_by_slug,
            "hooks": self.hooks,
            "inconclusive": self.inconclusive,
            "extra": self.extra,
            "exhaustive": self.exhaustive,
        }


class Ctx:
    """Per-worker context: seed, tier, share of the work, deadline."""

    def __init__(self, prop: str, tier: str, seed: int, worker: int, nworkers: int, budget_s: float):
        self.prop = prop
        self.tier = tier
        self.seed = seed
        self.worker = worker
        self.nworkers = nworkers
        self.budget_s = budget_s
        self.t0 = time.monotonic()
        self.rnd = random.Random(f"{prop}/{seed}/{worker}")
        self.acc = Acc()

    @property
    def thorough(self) -> bool:
        return self.tier == "thorough"

    def time_left(self) -> float:
        return self.budget_s - (time.monotonic() - self.t0)

    def expired(self) -> bool:
        return self.time_left() <= 0

    def past(self, frac: float) -> bool:
        """True once this share of the budget is used up: a phase that must leave time for the ones after it stops here."""
        return (time.monotonic() - self.t0) >= frac * self.budget_s

    def mine(self, i: int) -> bool:
        """Static partition of an enumerated space over the workers."""
        return i % self.nworkers == self.worker

    def scale(self, quick: int, thorough: int) -> int:
        """Per-worker share of a case count."""
        total = thorough if self.thorough else quick
        return max(1, total // self.nworkers)
