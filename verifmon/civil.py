"""
Independent proleptic-Gregorian calendar arithmetic (no datetime import).

days_from_civil / civil_from_days follow the well-known era-based algorithm
(400-year eras of 146097 days); day 0 is 1970-01-01.
"""


def days_from_civil(y: int, m: int, d: int) -> int:
    y -= 1 if m <= 2 else 0
    era = (y if y >= 0 else y - 399) // 400
    yoe = y - era * 400
    mp = (m + 9) % 12
    doy = (153 * mp + 2) // 5 + d - 1
    doe = yoe * 365 + yoe // 4 - yoe // 100 + doy
    return era * 146097 + doe - 719468


def civil_from_days(z: int):
    z += 719468
    era = (z if z >= 0 else z - 146096) // 146097
    doe = z - era * 146097
    yoe = (doe - doe // 1460 + doe // 36524 - doe // 146096) // 365
    y = yoe + era * 400
    doy = doe - (365 * yoe + yoe // 4 - yoe // 100)
    mp = (5 * doy + 2) // 153
    d = doy - (153 * mp + 2) // 5 + 1
    m = mp + 3 if mp < 10 else mp - 9
    return (y + (1 if m <= 2 else 0), m, d)


def is_leap(y: int) -> bool:
    return y % 4 == 0 and (y % 100 != 0 or y % 400 == 0)


def weekday_sunday0(days: int) -> int:
    """1970-01-01 was a Thursday (=4 with Sunday=0)."""
    return (days + 4) % 7


def fields(us: int, offset_s: int = 0):
    """Civil fields of instant `us` (microseconds since epoch) at UTC offset `offset_s` seconds."""
    local = us + offset_s * 10**6
    days, rem = divmod(local, 86400 * 10**6)
    y, m, d = civil_from_days(days)
    sec, frac = divmod(rem, 10**6)
    return {
        "getFullYear": y,
        "getMonth": m - 1,
        "getDate": d,
        "getDayOfMonth": d - 1,
        "getDayOfYear": days - days_from_civil(y, 1, 1),
        "getDayOfWeek": weekday_sunday0(days),
        "getHours": sec // 3600,
        "getMinutes": sec % 3600 // 60,
        "getSeconds": sec % 60,
        "getMilliseconds": frac // 1000,
    }
