"""
Convert a parse tree produced by the library's parser into the harness AST
(untyped: Node.t is None), so that arbitrary accepted text -- conformance corpus,
mutated sources -- can be decomposed into sub-expressions by verifmon.diag and
normalised by C06.  Literals are kept as opaque source tokens.
"""

from __future__ import annotations

import re
from typing import Any

from .lang import Node, P_PRIMARY, P_UNARY

REL = {"relation_lt": "<", "relation_le": "<=", "relation_gt": ">", "relation_ge": ">=", "relation_eq": "==", "relation_ne": "!=", "relation_in": "in"}
ADD = {"addition_add": "+", "addition_sub": "-"}
MUL = {"multiplication_mul": "*", "multiplication_div": "/", "multiplication_mod": "%"}
MACROS = {"map", "filter", "all", "exists", "exists_one"}


_CHAIN = {"expr", "conditionalor", "conditionaland", "relation", "addition", "multiplication", "unary", "member", "primary"}


class Unsupported(Exception):
    pass


ALLOPS = {**REL, **ADD, **MUL}


def conv(t: Any, keep_parens: bool = False) -> Node:
    d = str(t.data)
    ch = t.children
    # fast path: single-child precedence chain
    while len(ch) == 1 and d in _CHAIN:
        t = ch[0]
        d = str(t.data)
        ch = t.children
    if d == "expr":
        if len(ch) == 1:
            return conv(ch[0], keep_parens)
        return Node("cond", None, conv(ch[0], keep_parens), conv(ch[1], keep_parens), conv(ch[2], keep_parens))
    if d in ("conditionalor", "conditionaland"):
        if len(ch) == 1:
            return conv(ch[0], keep_parens)
        return Node("bin", None, "||" if d == "conditionalor" else "&&", conv(ch[0], keep_parens), conv(ch[1], keep_parens))
    if d in ("relation", "addition", "multiplication"):
        if len(ch) == 1:
            return conv(ch[0], keep_parens)
        opn, right = ch
        op = ALLOPS[str(opn.data)]
        return Node("bin", None, op, conv(opn.children[0], keep_parens), conv(right, keep_parens))
    if d == "unary":
        if len(ch) == 1:
            return conv(ch[0], keep_parens)
        op = "!" if ch[0].data == "unary_not" else "-"
        return Node("un", None, op, conv(ch[1], keep_parens))
    if d in ("member", "primary"):
        return conv(ch[0], keep_parens)
    if d == "member_dot":
        return Node("field", None, conv(ch[0], keep_parens), str(ch[1]))
    if d == "member_dot_arg":
        recv = conv(ch[0], keep_parens)
        name = str(ch[1])
        args = [conv(x, keep_parens) for x in ch[2].children] if len(ch) == 3 else []
        if name in MACROS and len(args) == 2 and args[0].k == "var":
            return Node("macro", None, name, recv, args[0].a[0], args[1])
        return Node("meth", None, name, recv, *args)
    if d == "member_index":
        return Node("index", None, conv(ch[0], keep_parens), conv(ch[1], keep_parens))
    if d == "member_object":
        recv = conv(ch[0], keep_parens)
        fields = []
        if len(ch) == 2:
            items = ch[1].children
            fields = [(str(items[i]), conv(items[i + 1], keep_parens)) for i in range(0, len(items), 2)]
        return Node("obj", None, recv, tuple(fields))
    if d == "literal":
        tok = ch[0]
        text = str(tok)
        neg = text.startswith("-")
        tag = "literal:" + tok.type
        if tok.type in ("INT_LIT", "UINT_LIT", "FLOAT_LIT") and re.match(r"-?0\d", text):
            tag += ":leading-zeros"
        return Node("raw", None, text, "U", P_UNARY if neg else P_PRIMARY, tag)
    if d == "ident":
        return Node("var", None, str(ch[0]))
    if d == "dot_ident":
        return Node("raw", None, "." + str(ch[0]), "U", P_PRIMARY, "dot_ident")
    if d == "dot_ident_arg":
        args = [conv(x, keep_parens) for x in ch[1].children] if len(ch) == 2 else []
        return Node("call", None, "." + str(ch[0]), *args)
    if d == "ident_arg":
        name = str(ch[0])
        args = [conv(x, keep_parens) for x in ch[1].children] if len(ch) == 2 else []
        if name == "has" and len(args) == 1 and args[0].k == "field":
            return Node("has", None, args[0].a[0], args[0].a[1])
        return Node("call", None, name, *args)
    if d == "paren_expr":
        inner = conv(ch[0], keep_parens)
        if keep_parens:
            return Node("call", None, "<paren>", inner)
        return inner
    if d == "list_lit":
        if not ch:
            return Node("list", None)
        return Node("list", None, *[conv(x, keep_parens) for x in ch[0].children])
    if d == "map_lit":
        if not ch:
            return Node("map", None)
        items = ch[0].children
        return Node("map", None, *[(conv(items[i], keep_parens), conv(items[i + 1], keep_parens)) for i in range(0, len(items), 2)])
    raise Unsupported(d)


def sexpr(n: Node) -> Any:
    """Nested-list S-expression of a Node (JSON friendly), used by C06."""
    if n.k == "raw":
        return ["tok", n.a[0]]
    if n.k == "var":
        return ["id", n.a[0]]
    if n.k == "lit":
        from .mv import lit

        return ["tok", lit(n.a[0])]
    if n.k in ("bin", "un"):
        return [n.a[0]] + [sexpr(x) for x in n.a[1:]]
    if n.k == "cond":
        return ["?:"] + [sexpr(x) for x in n.a]
    if n.k == "call":
        return ["call", n.a[0]] + [sexpr(x) for x in n.a[1:]]
    if n.k == "meth":
        return ["meth", n.a[0]] + [sexpr(x) for x in n.a[1:]]
    if n.k == "macro":
        return ["meth", n.a[0], sexpr(n.a[1]), ["id", n.a[2]], sexpr(n.a[3])]
    if n.k == "index":
        return ["index", sexpr(n.a[0]), sexpr(n.a[1])]
    if n.k == "field":
        return ["field", sexpr(n.a[0]), n.a[1]]
    if n.k == "has":
        return ["call", "has", ["field", sexpr(n.a[0]), n.a[1]]]
    if n.k == "obj":
        return ["obj", sexpr(n.a[0])] + [[f, sexpr(v)] for f, v in n.a[1]]
    if n.k == "list":
        return ["list"] + [sexpr(x) for x in n.a]
    if n.k == "map":
        return ["map"] + [[sexpr(k), sexpr(v)] for k, v in n.a]
    raise ValueError(n.k)



def with_simple_literals(n: Node) -> Node:
    """A copy of a converted tree in which plainly spelled literals (decimal int/uint, simple floats, true/false/null,
    quoted strings without escapes) become model literals, so that the reference evaluator can run hand-written texts."""
    import re

    def lit(x):
        if x.k != "raw" or not str(x.a[3]).startswith("literal:"):
            return None
        text, kind = x.a[0], x.a[3].split(":", 1)[1]
        if kind == "INT_LIT" and re.fullmatch(r"-?(0|[1-9]\d*)", text):
            return Node("lit", "int", ("int", int(text)))
        if kind == "UINT_LIT" and re.fullmatch(r"(0|[1-9]\d*)[uU]", text):
            return Node("lit", "uint", ("uint", int(text[:-1])))
        if kind == "FLOAT_LIT" and re.fullmatch(r"-?\d+\.\d+", text):
            return Node("lit", "double", ("double", float(text)))
        if kind == "BOOL_LIT":
            return Node("lit", "bool", ("bool", text == "true"))
        if kind == "NULL_LIT":
            return Node("lit", "null", ("null", None))
        if kind == "STRING_LIT" and re.fullmatch(r"'[^'\\\n]*'|\"[^\"\\\n]*\"", text):
            return Node("lit", "string", ("string", text[1:-1]))
        return None

    def rec(x):
        if not isinstance(x, Node):
            if isinstance(x, tuple):
                return tuple(rec(y) for y in x)
            return x
        r = lit(x)
        if r is not None:
            return r
        return Node(x.k, x.t, *[rec(y) for y in x.a])

    return rec(n)
