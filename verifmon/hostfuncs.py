"""Module-level host functions (importable harness module) used by C14.  Every call is recorded."""

LOG = []


def _rec(name, args):
    from .core import canon

    LOG.append((name, [canon(a) for a in args]))


def _ct():
    import celpy.celtypes as ct

    return ct


def h0():
    _rec("h0", ())
    return _ct().IntType(7)


def h1(a):
    _rec("h1", (a,))
    return _ct().IntType(int(a) + 1)


def hany(*args):
    """Accepts whatever it is given (never inspects its arguments)."""
    _rec("hany", args)
    return _ct().IntType(40 + len(args))


def h2(a, b):
    _rec("h2", (a, b))
    return _ct().IntType(int(a) * 1000 + int(b))


def h3(a, b, c):
    _rec("h3", (a, b, c))
    return _ct().IntType(int(a) * 1000000 + int(b) * 1000 + int(c))


def hs(s):
    _rec("hs", (s,))
    return _ct().StringType(str(s).upper())


def hb(a):
    _rec("hb", (a,))
    return _ct().BoolType(int(a) % 2 == 0)


def herr(a):
    _rec("herr", (a,))
    from celpy.evaluation import CELEvalError

    return CELEvalError("boom from host function")


def hval(a):
    _rec("hval", (a,))
    raise ValueError("bad value")


def htyp(a):
    _rec("htyp", (a,))
    raise TypeError("bad type")


def size(x):
    _rec("size", (x,))
    return _ct().IntType(-1)


def contains(a, b):
    _rec("contains", (a, b))
    return _ct().BoolType(True)


def size_bad(x):
    """an override of the built-in size() that rejects its argument"""
    _rec("size#bad", (x,))
    raise TypeError("this size() does not take that")


def contains_bad(a, b):
    _rec("contains#bad", (a, b))
    from celpy.evaluation import CELEvalError

    return CELEvalError("this contains() fails")


def string_bad(x):
    _rec("string#bad", (x,))
    raise AttributeError("no such attribute")


class BadInput(ValueError):
    pass


class BadKind(TypeError):
    pass


def hvsub(a):
    """raises a SUBCLASS of ValueError"""
    _rec("hvsub", (a,))
    import json

    if int(a) % 2:
        raise BadInput("bad input")
    raise json.JSONDecodeError("not json", "x", 0)


def htsub(a):
    _rec("htsub", (a,))
    raise BadKind("bad kind")
