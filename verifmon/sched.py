"""
Deterministic cooperative thread scheduler driven by sys.monitoring LINE events.

Exactly one managed thread holds the baton.  Every executed line of the code under
test (files under <repo>/src/celpy, <repo>/src/xlate and the "<string>" code objects the
transpiler exec()s) is a scheduling point at which the policy may hand the baton to
another managed thread.  Line-level preemption is always a schedule CPython can produce
(the GIL may be released between any two bytecodes).  Same policy + same seed => same
switch trace, which is what the replay uses.
"""

from __future__ import annotations

import os
import sys
import threading
import time
from typing import Callable, Dict, List, Optional, Tuple

mon = sys.monitoring
TOOL = 3  # a free tool id (0 debugger, 1 coverage, 2 profiler, 5 optimizer are reserved names)


class Deadline(Exception):
    pass


class Scheduler:
    def __init__(self, interesting: Callable[[str], bool]):
        self.interesting = interesting
        self.cv = threading.Condition()
        self.managed: Dict[int, int] = {}  # thread ident -> logical id
        self.current: Optional[int] = None  # logical id holding the baton
        self.alive: List[int] = []
        self.policy: Optional[Callable[["Scheduler", int, int], Optional[int]]] = None
        self.points = 0
        self.points_by_thread: Dict[int, int] = {}
        self.switches: List[Tuple[int, int, int]] = []  # (from, to, point index of 'from')
        self.sites = set()
        self.free_run = False  # watchdog fired: let everything run
        self.installed = False
        self.wait_limit = 30.0
        self.last_site: Optional[Tuple[str, int]] = None
        self.built: Dict[int, bool] = {}  # logical thread id -> its program is constructed (set by the thread's body)
        self.site_code: Optional[Dict[Tuple[str, int], object]] = None  # when a dict: site -> code object (profiling runs)
        self.site_log: Optional[List[Tuple[str, int]]] = None  # when a list: the site of every point, in order (profiling runs)

    # ---- sys.monitoring plumbing
    def install(self):
        if self.installed:
            return
        mon.use_tool_id(TOOL, "verifmon-sched")
        mon.register_callback(TOOL, mon.events.LINE, self._on_line)
        mon.set_events(TOOL, mon.events.LINE)
        self.installed = True

    def uninstall(self):
        if not self.installed:
            return
        mon.set_events(TOOL, 0)
        mon.register_callback(TOOL, mon.events.LINE, None)
        mon.free_tool_id(TOOL)
        self.installed = False

    def _on_line(self, code, line):
        if not self.interesting(code.co_filename):
            return mon.DISABLE
        lid = self.managed.get(threading.get_ident())
        if lid is None or self.free_run:
            return None
        self.point(lid, code, line)
        return None

    # ---- scheduling
    def point(self, lid: int, code, line):
        with self.cv:
            self.points += 1
            n = self.points_by_thread.get(lid, 0) + 1
            self.points_by_thread[lid] = n
            site = (os.path.basename(code.co_filename), line)
            self.sites.add(site)
            if self.site_log is not None:
                self.site_log.append(site)
            self.last_site = site
            if self.site_code is not None and site not in self.site_code:
                self.site_code[site] = code
            if self.current != lid:
                # should not happen: a thread runs only with the baton; tolerate (first entry)
                self._wait_for_baton(lid)
                return
            if self.policy is None:
                return
            target = self.policy(self, lid, n)
            if target is not None and target != lid and target in self.alive:
                self.switches.append((lid, target, n))
                self.current = target
                self.cv.notify_all()
                self._wait_for_baton(lid)

    def _wait_for_baton(self, lid: int):
        t0 = time.monotonic()
        while self.current != lid and not self.free_run:
            self.cv.wait(timeout=1.0)
            if time.monotonic() - t0 > self.wait_limit:
                self.free_run = True
                self.cv.notify_all()
                return

    def run(self, bodies: List[Callable[[], None]], policy, first: int = 0) -> bool:
        """Run the bodies as managed threads under the policy.  Returns False when the watchdog fired."""
        self.managed.clear()
        self.points = 0
        self.points_by_thread = {}
        self.switches = []
        self.built = {}
        self.free_run = False
        self.policy = policy
        self.alive = list(range(len(bodies)))
        self.current = first
        threads = []

        def wrap(lid, body):
            def runner():
                self.managed[threading.get_ident()] = lid
                with self.cv:
                    self._wait_for_baton(lid)
                try:
                    body()
                finally:
                    with self.cv:
                        if lid in self.alive:
                            self.alive.remove(lid)
                        if self.current == lid and self.alive:
                            nxt = self.alive[0]
                            self.switches.append((lid, nxt, -1))
                            self.current = nxt
                        self.cv.notify_all()
                    self.managed.pop(threading.get_ident(), None)

            return runner

        for lid, body in enumerate(bodies):
            t = threading.Thread(target=wrap(lid, body), name=f"verif-{lid}", daemon=True)
            threads.append(t)
        for t in threads:
            t.start()
        ok = True
        for t in threads:
            t.join(timeout=self.wait_limit * 3)
            if t.is_alive():
                ok = False
                with self.cv:
                    self.free_run = True
                    self.cv.notify_all()
                t.join(timeout=10)
        self.policy = None
        return ok and not self.free_run

    def run_fast(self, code, line: int, occurrence: int, body_a, body_b, armed=None, timeout: float = 60.0):
        """Single preemption without the baton machinery: LINE events are enabled for ONE code object only; when the thread running
        body_a is about to execute `line` of it for the `occurrence`-th time (counted while armed() is true, if given), body_b is run
        to completion in another thread, then body_a continues.  Everything else runs at full speed, unobserved.
        Returns (switched, finished): whether the preemption point was reached, and whether both bodies finished in time."""
        was_installed = self.installed
        if not was_installed:
            mon.use_tool_id(TOOL, "verifmon-sched")
        mon.set_events(TOOL, 0)
        st = {"a": None, "seen": 0, "switched": False, "finished": True}

        def cb(c, ln):
            if st["switched"] or ln != line or c is not code or threading.get_ident() != st["a"]:
                return None
            if armed is not None and not armed():
                return None
            st["seen"] += 1
            if st["seen"] == occurrence:
                st["switched"] = True
                tb = threading.Thread(target=body_b, name="verif-fast-b", daemon=True)
                tb.start()
                tb.join(timeout)
                if tb.is_alive():
                    st["finished"] = False
            return None

        mon.register_callback(TOOL, mon.events.LINE, cb)
        mon.set_local_events(TOOL, code, mon.events.LINE)
        try:

            def run_a():
                st["a"] = threading.get_ident()
                body_a()

            ta = threading.Thread(target=run_a, name="verif-fast-a", daemon=True)
            ta.start()
            ta.join(timeout)
            if ta.is_alive():
                st["finished"] = False
        finally:
            mon.set_local_events(TOOL, code, 0)
            if was_installed:
                mon.register_callback(TOOL, mon.events.LINE, self._on_line)
                mon.set_events(TOOL, mon.events.LINE)
            else:
                mon.register_callback(TOOL, mon.events.LINE, None)
                mon.free_tool_id(TOOL)
        if not st["switched"] and st["finished"]:
            body_b()  # the point was not reached: B still runs (alone), so that both outcome lists are complete
        return st["switched"], st["finished"]

    def run_fast2(self, code1, line1: int, occ1: int, code2, line2: int, occ2: int, body_a, body_b, timeout: float = 60.0):
        """Two preemptions: thread A is paused before (code1, line1, occ1); thread B starts and is itself paused before
        (code2, line2, occ2) -- or finishes, if it never gets there; A then runs to completion; B is released and finishes.
        LINE events are enabled for the one or two code objects only.  Returns (a_paused, b_paused, finished)."""
        was_installed = self.installed
        if not was_installed:
            mon.use_tool_id(TOOL, "verifmon-sched")
        mon.set_events(TOOL, 0)
        st = {"a": None, "b": None, "seen1": 0, "seen2": 0, "phase": 0, "tb": None, "finished": True}
        progress = threading.Event()  # B is paused, or B is done
        release = threading.Event()

        def run_b():
            st["b"] = threading.get_ident()
            try:
                body_b()
            finally:
                st["b_done"] = True
                progress.set()

        def cb(c, ln):
            tid = threading.get_ident()
            if tid == st["a"] and st["phase"] == 0 and ln == line1 and c is code1:
                st["seen1"] += 1
                if st["seen1"] == occ1:
                    st["phase"] = 1
                    tb = threading.Thread(target=run_b, name="verif-fast2-b", daemon=True)
                    st["tb"] = tb
                    tb.start()
                    if not progress.wait(timeout):
                        st["finished"] = False
            elif tid == st["b"] and st["phase"] == 1 and ln == line2 and c is code2:
                st["seen2"] += 1
                if st["seen2"] == occ2:
                    st["phase"] = 2
                    progress.set()
                    if not release.wait(timeout):
                        st["finished"] = False
            return None

        mon.register_callback(TOOL, mon.events.LINE, cb)
        mon.set_local_events(TOOL, code1, mon.events.LINE)
        if code2 is not code1:
            mon.set_local_events(TOOL, code2, mon.events.LINE)
        try:

            def run_a():
                st["a"] = threading.get_ident()
                body_a()

            ta = threading.Thread(target=run_a, name="verif-fast2-a", daemon=True)
            ta.start()
            ta.join(timeout)
            if ta.is_alive():
                st["finished"] = False
            release.set()
            if st["tb"] is not None:
                st["tb"].join(timeout)
                if st["tb"].is_alive():
                    st["finished"] = False
        finally:
            release.set()
            mon.set_local_events(TOOL, code1, 0)
            if code2 is not code1:
                mon.set_local_events(TOOL, code2, 0)
            if was_installed:
                mon.register_callback(TOOL, mon.events.LINE, self._on_line)
                mon.set_events(TOOL, mon.events.LINE)
            else:
                mon.register_callback(TOOL, mon.events.LINE, None)
                mon.free_tool_id(TOOL)
        if st["phase"] == 0 and st["finished"]:
            body_b()
        return st["phase"] >= 1, st["phase"] == 2, st["finished"]

    def trace_key(self) -> str:
        return ";".join(f"{a}>{b}@{n}" for a, b, n in self.switches)


# ---- policies
def never(s, lid, n):
    return None


def single_preemption(at_point: int, a: int = 0, b: int = 1):
    """Thread a runs to its point number `at_point`, then b runs to completion, then a resumes."""

    def policy(s, lid, n):
        if lid == a and n == at_point:
            return b
        return None

    return policy


def preempt_at_site(site, occurrence: int = 1, a: int = 0, b: int = 1, first_after_built: bool = False):
    """Thread a runs until it is about to execute source line `site` (file, line) for the `occurrence`-th time, then b runs to
    completion, then a resumes.  Unlike a point index this does not depend on how many lines a executed before.
    first_after_built: occurrences are counted only after thread a has set `s.built[a]` (its program is constructed)."""
    seen = [0]

    def policy(s, lid, n):
        if first_after_built and not s.built.get(a):
            return None
        if lid == a and s.last_site == site:
            seen[0] += 1
            if seen[0] == occurrence:
                return b
        return None

    return policy


def random_walk(rnd, p: float, nthreads: int):
    def policy(s, lid, n):
        if rnd.random() < p:
            others = [t for t in s.alive if t != lid]
            if others:
                return rnd.choice(others)
        return None

    return policy


def pct(rnd, nthreads: int, change_points: List[int]):
    """PCT-style: a fixed set of global point indices at which the baton moves to a random other thread."""
    cps = set(change_points)

    def policy(s, lid, n):
        if s.points in cps:
            others = [t for t in s.alive if t != lid]
            if others:
                return rnd.choice(others)
        return None

    return policy
