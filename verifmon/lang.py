"""
Harness-side CEL: a typed AST, a printer, a type-directed generator and an
independent reference evaluator (no celpy import anywhere in this module).

Types: 'int' 'uint' 'double' 'bool' 'string' 'bytes' 'null' 'ts' 'dur' 'type'
       ('list', T)  ('map', K, V)
Nodes: Node(kind, type, *args)
  lit(mv) var(name) un(op,a) bin(op,a,b) cond(c,a,b) call(name,args...) meth(name,recv,args...)
  index(a,i) field(a,name) list(e...) map((k,v)...) macro(kind,recv,var,body) has(a,name)
  raw(text)  -- opaque failing/ill-typed text with a declared outcome class
"""

from __future__ import annotations

import math
from fractions import Fraction
from typing import Any, Dict, List, Optional, Tuple

from . import civil, mv as MV

INT_MIN, INT_MAX, UINT_MAX = MV.INT_MIN, MV.INT_MAX, MV.UINT_MAX


class Node:
    __slots__ = ("k", "t", "a")

    def __init__(self, k: str, t: Any, *a: Any):
        self.k, self.t, self.a = k, t, a

    def __repr__(self):
        return f"Node({self.k},{self.t},{self.a})"


def walk(n: Node):
    yield n
    for x in n.a:
        if isinstance(x, Node):
            yield from walk(x)
        elif isinstance(x, (tuple, list)):
            for y in x:
                if isinstance(y, Node):
                    yield from walk(y)
                elif isinstance(y, (tuple, list)):
                    for z in y:
                        if isinstance(z, Node):
                            yield from walk(z)


def kinds(n: Node) -> List[str]:
    out = set()
    for x in walk(n):
        if x.k in ("bin", "un"):
            out.add(x.a[0])
        elif x.k in ("call", "meth"):
            out.add(x.k + ":" + x.a[0])
        elif x.k == "macro":
            out.add("macro:" + x.a[0])
        else:
            out.add(x.k)
    return sorted(out)


def size(n: Node) -> int:
    return sum(1 for _ in walk(n))


# --------------------------------------------------------------------------
# printer
# --------------------------------------------------------------------------

PREC = {"?:": 1, "||": 2, "&&": 3, "<": 4, "<=": 4, ">": 4, ">=": 4, "==": 4, "!=": 4, "in": 4, "+": 5, "-": 5, "*": 6, "/": 6, "%": 6}
P_UNARY, P_MEMBER, P_PRIMARY = 7, 8, 9


def prec(n: Node) -> int:
    if n.k == "bin":
        return PREC[n.a[0]]
    if n.k == "cond":
        return 1
    if n.k == "un":
        return P_UNARY
    if n.k in ("meth", "index", "field", "macro", "obj"):
        return P_MEMBER
    if n.k == "lit":
        tag, p = n.a[0]
        if tag in ("int",) and p < 0:
            return P_UNARY
        if tag == "double" and (p < 0 or (p == 0 and math.copysign(1, p) < 0)):
            return P_UNARY
        return P_PRIMARY
    if n.k == "raw":
        return n.a[2] if len(n.a) > 2 else 0
    return P_PRIMARY


class Printer:
    """Renders ASTs; with rnd given, adds meaning-preserving noise (spaces, comments, parens)."""

    def __init__(self, rnd=None, noise: float = 0.0):
        self.rnd = rnd
        self.noise = noise

    def sp(self) -> str:
        if self.rnd is None or self.rnd.random() >= self.noise:
            return " "
        return self.rnd.choice(["", " ", "  ", "\t", "\n", " // c\n", "\n\n "])

    def wrap(self, n: Node, minp: int) -> str:
        s = self.p(n)
        if prec(n) < minp:
            return "(" + s + ")"
        if minp == P_MEMBER and s.isdigit():
            return "(" + s + ")"  # '1.f' would lex as the float '1.' followed by 'f'
        if self.rnd is not None and self.rnd.random() < self.noise * 0.3:
            return "(" + s + ")"
        return s

    def p(self, n: Node) -> str:
        k = n.k
        if k == "lit":
            s = MV.lit(n.a[0])
            if s is None:
                raise ValueError("unprintable literal")
            return s
        if k == "var":
            return n.a[0]
        if k == "raw":
            return n.a[0]
        if k == "un":
            op, a = n.a
            inner = self.wrap(a, P_UNARY)
            if op == "-" and inner.startswith("-"):
                inner = "(" + inner + ")"
            return op + inner
        if k == "bin":
            op, a, b = n.a
            pr = PREC[op]
            if op == "in":
                sep1, sep2 = self.sp() or " ", self.sp() or " "
                return self.wrap(a, pr) + sep1 + op + sep2 + self.wrap(b, pr + 1)
            return self.wrap(a, pr) + self.sp() + op + self.sp() + self.wrap(b, pr + 1)
        if k == "cond":
            c, a, b = n.a
            return self.wrap(c, 2) + self.sp() + "?" + self.sp() + self.wrap(a, 2) + self.sp() + ":" + self.sp() + self.wrap(b, 1)
        if k == "call":
            return n.a[0] + "(" + ", ".join(self.p(x) for x in n.a[1:]) + ")"
        if k == "meth":
            return self.wrap(n.a[1], P_MEMBER) + "." + n.a[0] + "(" + ", ".join(self.p(x) for x in n.a[2:]) + ")"
        if k == "index":
            return self.wrap(n.a[0], P_MEMBER) + "[" + self.p(n.a[1]) + "]"
        if k == "field":
            return self.wrap(n.a[0], P_MEMBER) + "." + n.a[1]
        if k == "has":
            return "has(" + self.wrap(n.a[0], P_MEMBER) + "." + n.a[1] + ")"
        if k == "obj":
            return self.wrap(n.a[0], P_MEMBER) + "{" + ", ".join(f + ": " + self.p(v) for f, v in n.a[1]) + "}"
        if k == "list":
            return "[" + ", ".join(self.p(x) for x in n.a) + "]"
        if k == "map":
            return "{" + ", ".join(self.p(kk) + ": " + self.p(vv) for kk, vv in n.a) + "}"
        if k == "macro":
            kind, recv, var, body = n.a
            return self.wrap(recv, P_MEMBER) + "." + kind + "(" + var + ", " + self.p(body) + ")"
        raise ValueError(k)


def to_text(n: Node, rnd=None, noise: float = 0.0) -> str:
    return Printer(rnd, noise).p(n)


# --------------------------------------------------------------------------
# reference evaluator
# --------------------------------------------------------------------------


def _re2_dollar(pat: str) -> str:
    """RE2's `$` (no multi-line flag) matches only at the very end of the text; Python's also before a final line feed: spell it \\Z."""
    if "(?" in pat and "m" in pat.split("(?", 1)[1].split(")", 1)[0]:
        return pat
    out, i, in_class = [], 0, False
    while i < len(pat):
        c = pat[i]
        if c == "\\" and i + 1 < len(pat):
            out.append(pat[i : i + 2])
            i += 2
            continue
        if in_class:
            in_class = c != "]"
        elif c == "[":
            in_class = True
            if pat[i + 1 : i + 2] == "^":
                out.append("[^")
                i += 2
                if pat[i : i + 1] == "]":
                    out.append("]")
                    i += 1
                continue
            if pat[i + 1 : i + 2] == "]":
                out.append("[]")
                i += 2
                continue
        elif c == "$":
            out.append("\\Z")
            i += 1
            continue
        out.append(c)
        i += 1
    return "".join(out)


class ModelErr(Exception):
    """The CEL definition prescribes an evaluation error."""


class Unspec(Exception):
    """The statement being checked does not prescribe an outcome."""


def _chk_int(v: int):
    if not (INT_MIN <= v <= INT_MAX):
        raise ModelErr("int overflow")
    return ("int", v)


def _chk_uint(v: int):
    if not (0 <= v <= UINT_MAX):
        raise ModelErr("uint overflow")
    return ("uint", v)


def int_div(a: int, b: int) -> int:
    if b == 0:
        raise ModelErr("divide by zero")
    q = abs(a) // abs(b)
    return q if (a < 0) == (b < 0) else -q


def int_mod(a: int, b: int) -> int:
    if b == 0:
        raise ModelErr("modulus by zero")
    r = abs(a) % abs(b)
    return -r if a < 0 else r


def dbl_div(a: float, b: float) -> float:
    if b == 0:
        if a != a or a == 0:
            return math.nan
        neg = (math.copysign(1, a) < 0) != (math.copysign(1, b) < 0)
        return -math.inf if neg else math.inf
    return a / b


def cmp_mv(a, b) -> int:
    """Total order within one ordered CEL type. NaN never reaches here."""
    ta, pa = a
    tb, pb = b
    assert ta == tb, (a, b)
    if ta == "string":
        ka, kb = [ord(c) for c in pa], [ord(c) for c in pb]
        return (ka > kb) - (ka < kb)
    if ta == "bytes":
        ka, kb = list(pa), list(pb)
        return (ka > kb) - (ka < kb)
    if ta == "bool":
        return int(pa) - int(pb)
    return (pa > pb) - (pa < pb)


def eq_mv(a, b) -> bool:
    ta, pa = a
    tb, pb = b
    if ta != tb:
        raise Unspec("heterogeneous equality")
    if ta == "list":
        return len(pa) == len(pb) and all(eq_mv(x, y) for x, y in zip(pa, pb))
    if ta == "map":
        if len(pa) != len(pb):
            return False
        for k, v in pa:
            for k2, v2 in pb:
                if eq_mv(k, k2):
                    if not eq_mv(v, v2):
                        return False
                    break
            else:
                return False
        return True
    if ta == "double":
        return pa == pb  # -0.0 == 0.0, NaN != NaN
    return pa == pb


ORDERED = ("int", "uint", "double", "string", "bytes", "bool", "ts", "dur")


class Model:
    def __init__(self, env: Dict[str, Any], funcs: Optional[Dict[str, Any]] = None):
        self.env = env
        self.funcs = funcs or {}

    def ev(self, n: Node, scope: Optional[Dict[str, Any]] = None):
        scope = scope or {}
        k = n.k
        if k == "lit":
            return n.a[0]
        if k == "var":
            name = n.a[0]
            if name in scope:
                return scope[name]
            if name in self.env:
                return self.env[name]
            if n.t == "type":
                return ("type", name)
            raise ModelErr("unbound " + name)
        if k == "raw":
            cls = n.a[1]
            if cls == "E":
                raise ModelErr("raw error")
            if cls == "U":
                raise Unspec("raw")
            return cls  # a model value
        if k == "un":
            op, a = n.a
            v = self.ev(a, scope)
            if op == "!":
                if v[0] != "bool":
                    raise ModelErr("! on non-bool")
                return ("bool", not v[1])
            if v[0] == "int":
                return _chk_int(-v[1])
            if v[0] == "double":
                return ("double", -v[1])
            raise ModelErr("negate " + v[0])
        if k == "bin":
            op = n.a[0]
            if op in ("&&", "||"):
                return self.logic(op, n.a[1], n.a[2], scope)
            a = self.ev(n.a[1], scope)
            b = self.ev(n.a[2], scope)
            return self.binop(op, a, b)
        if k == "cond":
            c = self.ev(n.a[0], scope)
            if c[0] != "bool":
                raise ModelErr("non-bool condition")
            return self.ev(n.a[1] if c[1] else n.a[2], scope)
        if k == "list":
            return ("list", tuple(self.ev(x, scope) for x in n.a))
        if k == "map":
            items = []
            for kn, vn in n.a:
                kv = self.ev(kn, scope)
                vv = self.ev(vn, scope)
                if kv[0] not in ("int", "uint", "bool", "string"):
                    raise ModelErr("bad key type")
                for k2, _ in items:
                    if k2[0] != kv[0]:
                        raise Unspec("mixed key types")
                    if k2 == kv:
                        raise ModelErr("duplicate key")
                items.append((kv, vv))
            return ("map", tuple(items))
        if k == "index":
            c = self.ev(n.a[0], scope)
            i = self.ev(n.a[1], scope)
            return self.index(c, i)
        if k == "field":
            c = self.ev(n.a[0], scope)
            if c[0] != "map":
                raise ModelErr("field of non-map")
            return self.index(c, ("string", n.a[1]))
        if k == "has":
            try:
                c = self.ev(n.a[0], scope)
            except ModelErr:
                raise Unspec("has() over an operand that is itself an error")
            if c[0] != "map":
                raise ModelErr("has on non-map")
            return ("bool", any(kk == ("string", n.a[1]) for kk, _ in c[1]))
        if k == "call":
            args = [self.ev(x, scope) for x in n.a[1:]]
            return self.call(n.a[0], args)
        if k == "meth":
            recv = self.ev(n.a[1], scope)
            args = [self.ev(x, scope) for x in n.a[2:]]
            return self.call(n.a[0], [recv] + args, method=True)
        if k == "macro":
            return self.macro(n, scope)
        raise ValueError(k)

    # -- logic with error absorption
    def outcome(self, n: Node, scope):
        try:
            return self.ev(n, scope)
        except ModelErr:
            return ("<err>", None)

    def logic(self, op, an, bn, scope):
        a = self.outcome(an, scope)
        b = self.outcome(bn, scope)
        return self.logic_vals(op, a, b)

    @staticmethod
    def logic_vals(op, a, b):
        dec = False if op == "&&" else True
        for v in (a, b):
            if v[0] == "bool" and v[1] == dec:
                return ("bool", dec)
        if a[0] == "bool" and b[0] == "bool":
            return ("bool", not dec)
        # no deciding operand; at least one is an error or a non-boolean
        if a[0] == "<err>" or b[0] == "<err>":
            if all(v[0] in ("<err>", "bool") for v in (a, b)):
                raise ModelErr("error operand not absorbed")
            raise Unspec("error with non-boolean")
        if a[0] != "bool" and b[0] != "bool":
            raise ModelErr("two non-boolean operands")
        raise Unspec("non-boolean with non-deciding boolean")

    def binop(self, op, a, b):
        ta, tb = a[0], b[0]
        if op in ("==", "!="):
            r = eq_mv(a, b)
            return ("bool", r if op == "==" else not r)
        if op in ("<", "<=", ">", ">="):
            if ta != tb or ta not in ORDERED:
                raise Unspec("ordering")
            if ta == "double" and (a[1] != a[1] or b[1] != b[1]):
                return ("bool", False)
            c = cmp_mv(a, b)
            return ("bool", {"<": c < 0, "<=": c <= 0, ">": c > 0, ">=": c >= 0}[op])
        if op == "in":
            if tb == "list":
                for x in b[1]:
                    if x[0] != ta:
                        raise Unspec("heterogeneous in")
                    if eq_mv(x, a):
                        return ("bool", True)
                return ("bool", False)
            if tb == "map":
                for kk, _ in b[1]:
                    if kk[0] != ta:
                        raise Unspec("heterogeneous in")
                    if kk == a:
                        return ("bool", True)
                return ("bool", False)
            raise ModelErr("in on non-container")
        # arithmetic
        if ta == tb == "int":
            x, y = a[1], b[1]
            if op == "+":
                return _chk_int(x + y)
            if op == "-":
                return _chk_int(x - y)
            if op == "*":
                return _chk_int(x * y)
            if op == "/":
                return _chk_int(int_div(x, y))
            if op == "%":
                return _chk_int(int_mod(x, y))
        if ta == tb == "uint":
            x, y = a[1], b[1]
            if op == "+":
                return _chk_uint(x + y)
            if op == "-":
                return _chk_uint(x - y)
            if op == "*":
                return _chk_uint(x * y)
            if op == "/":
                if y == 0:
                    raise ModelErr("divide by zero")
                return _chk_uint(x // y)
            if op == "%":
                if y == 0:
                    raise ModelErr("modulus by zero")
                return _chk_uint(x % y)
        if ta == tb == "double":
            x, y = a[1], b[1]
            if op == "+":
                return ("double", x + y)
            if op == "-":
                return ("double", x - y)
            if op == "*":
                return ("double", x * y)
            if op == "/":
                return ("double", dbl_div(x, y))
            raise ModelErr("double %")
        if op == "+":
            if ta == tb == "string":
                return ("string", a[1] + b[1])
            if ta == tb == "bytes":
                return ("bytes", a[1] + b[1])
            if ta == tb == "list":
                return ("list", a[1] + b[1])
            if ta == "ts" and tb == "dur":
                return self.ts(a[1] + b[1])
            if ta == "dur" and tb == "ts":
                return self.ts(a[1] + b[1])
            if ta == tb == "dur":
                return self.dur(a[1] + b[1])
        if op == "-":
            if ta == "ts" and tb == "dur":
                return self.ts(a[1] - b[1])
            if ta == tb == "ts":
                return self.dur(a[1] - b[1])
            if ta == tb == "dur":
                return self.dur(a[1] - b[1])
        raise Unspec(f"{ta} {op} {tb}")

    @staticmethod
    def ts(us):
        if not (MV.TS_MIN_US <= us <= MV.TS_MAX_US):
            raise ModelErr("timestamp range")
        return ("ts", us)

    @staticmethod
    def dur(us):
        if not (-MV.DUR_MAX_US <= us <= MV.DUR_MAX_US):
            raise ModelErr("duration range")
        return ("dur", us)

    def index(self, c, i):
        if c[0] == "list":
            if i[0] not in ("int", "uint"):
                raise Unspec("list index type")
            if not (0 <= i[1] < len(c[1])):
                raise ModelErr("index out of range")
            return c[1][i[1]]
        if c[0] == "map":
            for kk, vv in c[1]:
                if kk[0] != i[0]:
                    raise Unspec("heterogeneous key lookup")
                if kk == i:
                    return vv
            if i[0] not in ("int", "uint", "bool", "string"):
                raise ModelErr("bad key type")
            raise ModelErr("no such key")
        raise ModelErr("index on " + c[0])

    def call(self, name, args, method=False):
        if name in self.funcs:
            return self.funcs[name](*args)
        a0 = args[0] if args else None
        if name == "size" and len(args) == 1:
            if a0[0] == "string":
                return ("int", len(a0[1]))
            if a0[0] in ("bytes", "list", "map"):
                return ("int", len(a0[1]))
            raise ModelErr("size")
        if name in ("contains", "startsWith", "endsWith") and len(args) == 2:
            if a0[0] != "string" or args[1][0] != "string":
                raise Unspec("string function on non-strings")
            s, t = a0[1], args[1][1]
            return ("bool", {"contains": t in s, "startsWith": s.startswith(t), "endsWith": s.endswith(t)}[name])
        if name == "matches" and len(args) == 2:
            import re

            if a0[0] != "string" or args[1][0] != "string":
                raise Unspec("matches on non-strings")
            try:
                return ("bool", re.search(_re2_dollar(args[1][1]), a0[1]) is not None)
            except re.error:
                raise ModelErr("bad regex")
        if name == "type" and len(args) == 1:
            return ("type", type_name_of_value(a0))
        if name in ("int", "uint", "double", "string", "bytes", "bool", "timestamp", "duration", "dyn") and len(args) == 1:
            return convert(name, a0)
        if name in ACCESSORS and 1 <= len(args) <= 2:
            return accessor(name, args)
        raise Unspec("function " + name)

    def macro(self, n: Node, scope):
        kind, recvn, var, body = n.a
        recv = self.ev(recvn, scope)
        if recv[0] == "list":
            items = recv[1]
        elif recv[0] == "map":
            items = tuple(kk for kk, _ in recv[1])
        else:
            raise ModelErr("macro on non-container")

        def sub(x):
            s2 = dict(scope)
            s2[var] = x
            return s2

        if kind == "map":
            return ("list", tuple(self.ev(body, sub(x)) for x in items))
        if kind == "filter":
            out = []
            for x in items:
                r = self.ev(body, sub(x))
                if r[0] != "bool":
                    raise ModelErr("non-bool predicate")
                if r[1]:
                    out.append(x)
            return ("list", tuple(out))
        if kind == "exists_one":
            cnt = 0
            for x in items:
                r = self.ev(body, sub(x))
                if r[0] != "bool":
                    raise ModelErr("non-bool predicate")
                cnt += 1 if r[1] else 0
            return ("bool", cnt == 1)
        if kind in ("all", "exists"):
            op = "&&" if kind == "all" else "||"
            acc = ("bool", kind == "all")
            pending_err = False
            dec = kind != "all"
            for x in items:
                r = self.outcome(body, sub(x))
                if r[0] == "bool":
                    if r[1] == dec:
                        return ("bool", dec)
                elif r[0] == "<err>":
                    pending_err = True
                else:
                    raise Unspec("non-bool predicate in all/exists")
            if pending_err:
                raise ModelErr("error not absorbed")
            return ("bool", not dec)
        raise Unspec("macro " + kind)


def type_name_of_value(v) -> str:
    return {"null": "null_type", "ts": "timestamp", "dur": "duration"}.get(v[0], v[0])


def type_name(t) -> str:
    if isinstance(t, tuple):
        return t[0]
    return {"null": "null_type", "ts": "timestamp", "dur": "duration"}.get(t, t)


ACCESSORS = ("getFullYear", "getMonth", "getDate", "getDayOfMonth", "getDayOfYear", "getDayOfWeek", "getHours", "getMinutes", "getSeconds", "getMilliseconds")


def parse_offset(text: str) -> Optional[int]:
    """'+HH:MM' / '-HH:MM' / 'HH:MM' -> seconds, None when not a fixed offset."""
    import re

    m = re.match(r"^([+-]?)(\d\d):(\d\d)$", text)
    if not m:
        return None
    s = (int(m.group(2)) * 60 + int(m.group(3))) * 60
    return -s if m.group(1) == "-" else s


def accessor(name, args):
    a0 = args[0]
    if a0[0] == "dur":
        if len(args) != 1:
            raise Unspec("duration accessor with zone")
        us = a0[1]
        sec = abs(us) // 10**6 * (1 if us >= 0 else -1)
        if name == "getHours":
            return ("int", int(Fraction(us, 3600 * 10**6)))
        if name == "getMinutes":
            return ("int", int(Fraction(us, 60 * 10**6)))
        if name == "getSeconds":
            return ("int", sec)
        if name == "getMilliseconds":
            raise Unspec("duration milliseconds (definitions differ)")
        raise ModelErr("accessor on duration")
    if a0[0] != "ts":
        raise Unspec("accessor on " + a0[0])
    off = 0
    if len(args) == 2:
        if args[1][0] != "string":
            raise Unspec("zone type")
        z = args[1][1]
        if z == "UTC":
            off = 0
        else:
            off = parse_offset(z)
            if off is None:
                off = iana_offset(z, a0[1])
    local = a0[1] + off * 10**6
    if not (MV.TS_MIN_US <= local <= MV.TS_MAX_US):
        raise Unspec("local time outside 0001-9999")
    return ("int", civil.fields(a0[1], off)[name])


def iana_offset(zone: str, us: int) -> int:
    """UTC offset of an IANA zone at an instant (tz database via the standard library)."""
    import datetime
    import zoneinfo

    try:
        z = zoneinfo.ZoneInfo(zone)
    except Exception:
        raise Unspec("unknown zone")
    days, rem = divmod(us, 86400 * 10**6)
    y, m, d = civil.civil_from_days(days)
    sec, frac = divmod(rem, 10**6)
    dt = datetime.datetime(y, m, d, sec // 3600, sec % 3600 // 60, sec % 60, frac, tzinfo=datetime.timezone.utc)
    return int(dt.astimezone(z).utcoffset().total_seconds())


def trunc_double(f: float) -> int:
    if f != f or f in (math.inf, -math.inf):
        raise ModelErr("non-finite to integer")
    fr = Fraction(f)
    q = abs(fr.numerator) // fr.denominator
    return q if fr >= 0 else -q


_INT_TEXT = None


def convert(name, v):
    import re

    tag, p = v
    if name == "dyn":
        return v
    if name == "int":
        if tag == "int":
            return v
        if tag == "uint":
            return _chk_int(p)
        if tag == "double":
            return _chk_int(trunc_double(p))
        if tag == "string":
            if re.fullmatch(r"-?[0-9]+", p):
                return _chk_int(int(p))
            if re.fullmatch(r"[+-]?[0-9]+|-?0[xX][0-9a-fA-F]+|\s.*|.*\s|.*_.*", p, re.S):
                raise Unspec("lenient integer text")
            if not p.isascii():
                raise Unspec("non-ASCII digits")
            raise ModelErr("unparsable int")
        if tag == "ts":
            if p % 10**6:
                raise Unspec("fractional ts to int")
            return _chk_int(p // 10**6)
        raise Unspec("int(" + tag + ")")
    if name == "uint":
        if tag == "uint":
            return v
        if tag == "int":
            return _chk_uint(p)
        if tag == "double":
            return _chk_uint(trunc_double(p))
        if tag == "string":
            if re.fullmatch(r"[0-9]+", p):
                return _chk_uint(int(p))
            if re.fullmatch(r"-[0-9]+", p):
                if int(p) == 0:
                    raise Unspec("-0")
                raise ModelErr("negative uint")
            if re.fullmatch(r"[+-]?[0-9]+|0[xX][0-9a-fA-F]+|\s.*|.*\s|.*_.*", p, re.S) or not p.isascii():
                raise Unspec("lenient integer text")
            raise ModelErr("unparsable uint")
        raise Unspec("uint(" + tag + ")")
    if name == "double":
        if tag == "double":
            return v
        if tag in ("int", "uint"):
            return ("double", float(Fraction(p)))
        if tag == "string":
            if re.fullmatch(r"-?(\d+\.?\d*|\.\d+)([eE][+-]?\d+)?", p):
                return ("double", float(p))
            if not any(ch.isdigit() for ch in p) and p.strip().lower().lstrip("+-") not in ("inf", "infinity", "nan"):
                raise ModelErr("unparsable double")
            raise Unspec("double text")
        raise Unspec("double(" + tag + ")")
    if name == "string":
        if tag == "string":
            return v
        if tag in ("int", "uint"):
            return ("string", str(p))
        if tag == "bytes":
            try:
                return ("string", bytes(p).decode("utf-8", errors="strict"))
            except UnicodeDecodeError:
                raise ModelErr("invalid UTF-8")
        if tag == "ts" and p % 10**6 == 0:
            return ("string", MV.ts_text(p))
        if tag == "dur" and p % 10**6 == 0:
            return ("string", f"{p // 10**6}s")
        raise Unspec("string(" + tag + ")")
    if name == "bytes":
        if tag == "bytes":
            return v
        if tag == "string":
            return ("bytes", p.encode("utf-8"))
        raise Unspec("bytes(" + tag + ")")
    if name == "bool":
        if tag == "bool":
            return v
        if tag == "string" and p in ("true", "false"):
            return ("bool", p == "true")
        raise Unspec("bool(" + tag + ")")
    if name == "timestamp":
        if tag == "ts":
            return v
        if tag == "string":
            us = parse_rfc3339(p)
            return Model.ts(us)
        raise Unspec("timestamp(" + tag + ")")
    if name == "duration":
        if tag == "dur":
            return v
        if tag == "string":
            return Model.dur(parse_duration(p))
        raise Unspec("duration(" + tag + ")")
    raise Unspec(name)


def _unspec(msg):
    raise Unspec(msg)


def parse_rfc3339(s: str) -> int:
    import re

    m = re.fullmatch(r"(\d{4})-(\d\d)-(\d\d)T(\d\d):(\d\d):(\d\d)(\.\d{1,6})?(Z|[+-]\d\d:\d\d)", s)
    if not m:
        if not any(ch.isdigit() for ch in s):
            raise ModelErr("unparsable timestamp")
        raise Unspec("timestamp text outside the strict RFC 3339 fragment")
    y, mo, d, hh, mi, ss = (int(m.group(i)) for i in range(1, 7))
    if not (1 <= mo <= 12 and 1 <= d <= 31 and hh < 24 and mi < 60 and ss < 60 and y >= 1):
        raise Unspec("field out of range")
    dim = [31, 29 if civil.is_leap(y) else 28, 31, 30, 31, 30, 31, 31, 30, 31, 30, 31][mo - 1]
    if d > dim:
        raise Unspec("day out of range")
    frac = int((m.group(7) or ".0")[1:].ljust(6, "0"))
    off = 0 if m.group(8) == "Z" else parse_offset(m.group(8))
    return (civil.days_from_civil(y, mo, d) * 86400 + hh * 3600 + mi * 60 + ss - off) * 10**6 + frac


_DUR_UNITS = {"h": 3600 * 10**9, "m": 60 * 10**9, "s": 10**9, "ms": 10**6, "us": 10**3, "ns": 1}


def parse_duration_ns(s: str) -> Fraction:
    """Exact length in nanoseconds of a Go-style duration text; Unspec outside the fragment."""
    import re

    m = re.fullmatch(r"([+-]?)((?:\d+(?:\.\d*)?|\.\d+)(?:ns|us|ms|s|m|h))+", s)
    if not m:
        if not re.fullmatch(r"[-+]?([0-9]*(\.[0-9]*)?[a-z\u00b5]+)+", s):
            raise ModelErr("unparsable duration")
        raise Unspec("duration text outside fragment")
    total = Fraction(0)
    for num, unit in re.findall(r"(\d+(?:\.\d*)?|\.\d+)(ns|us|ms|s|m|h)", s):
        total += Fraction(num if not num.endswith(".") else num + "0") * _DUR_UNITS[unit]
    return -total if m.group(1) == "-" else total


def parse_duration(s: str) -> int:
    ns = parse_duration_ns(s)
    us = ns / 1000
    if us.denominator != 1:
        raise Unspec("sub-microsecond duration")
    return int(us)
