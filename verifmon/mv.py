"""
Model values: CEL values represented with plain Python data, independent of celpy.

A model value is a pair (tag, payload):
  ('int', n) ('uint', n) ('double', f) ('bool', b) ('string', s) ('bytes', b)
  ('null', None) ('list', (mv, ...)) ('map', ((kmv, vmv), ...))
  ('ts', microseconds since 1970-01-01T00:00:00Z) ('dur', microseconds) ('type', name)

Also: conversion to celpy objects (for bindings), conversion of celpy results back
(`from_canon`, over verifmon.core.canon output), a conservative CEL literal printer,
and boundary-biased seeded value generators.
"""

from __future__ import annotations

import math
import struct
from typing import Any, List, Tuple

from . import civil

INT_MIN, INT_MAX = -(2**63), 2**63 - 1
UINT_MAX = 2**64 - 1
TS_MIN_US = civil.days_from_civil(1, 1, 1) * 86400 * 10**6
TS_MAX_US = (civil.days_from_civil(9999, 12, 31) + 1) * 86400 * 10**6 - 1
DUR_MAX_US = 315576000000 * 10**6

CLASS_OF = {
    "int": "IntType",
    "uint": "UintType",
    "double": "DoubleType",
    "bool": "BoolType",
    "string": "StringType",
    "bytes": "BytesType",
    "null": "NoneType",
    "list": "ListType",
    "map": "MapType",
    "ts": "TimestampType",
    "dur": "DurationType",
}
TAG_OF = {v: k for k, v in CLASS_OF.items()}
# native classes that denote the same CEL value but are not the library's class
NATIVE_TAG = {
    "int": None,
    "float": "double",
    "str": "string",
    "bytes": "bytes",
    "bool": "bool",
    "list": "list",
    "dict": "map",
    "datetime": "ts",
    "timedelta": "dur",
    "DateTime": "ts",
    "Duration": "dur",
}


OFFSET_EDGES = [0, 0, 330, -480, 60, -1, 1, 59, -59, 840, -840, -600, 600, -660, 780, -720, 720, -210, -570, 345, 765, -30, 30, -90]


def rand_offset(rnd) -> int:
    """A fixed UTC offset in minutes within -14:00..+14:00: edges, offsets 24 h apart (-10:00/+14:00 ...), quarter hours, any minute."""
    r = rnd.random()
    if r < 0.5:
        return rnd.choice(OFFSET_EDGES)
    if r < 0.85:
        return rnd.randint(-56, 56) * 15
    return rnd.randint(-840, 840)


def ts_text(us: int, offset_min: int = 0) -> str:
    """RFC 3339 text of an instant, written in the given fixed offset."""
    local = us + offset_min * 60 * 10**6
    days, rem = divmod(local, 86400 * 10**6)
    y, m, d = civil.civil_from_days(days)
    sec, frac = divmod(rem, 10**6)
    hh, r2 = divmod(sec, 3600)
    mi, ss = divmod(r2, 60)
    t = f"{y:04d}-{m:02d}-{d:02d}T{hh:02d}:{mi:02d}:{ss:02d}"
    if frac:
        t += f".{frac:06d}"
    if offset_min == 0:
        return t + "Z"
    sign = "+" if offset_min > 0 else "-"
    a = abs(offset_min)
    return t + f"{sign}{a // 60:02d}:{a % 60:02d}"


def to_cel(mv: Tuple[str, Any]) -> Any:
    """Build the celpy object for a model value (used for bindings)."""
    import datetime

    from celpy import celtypes as ct

    tag, p = mv
    if tag == "int":
        return ct.IntType(p)
    if tag == "uint":
        return ct.UintType(p)
    if tag == "double":
        return ct.DoubleType(p)
    if tag == "bool":
        return ct.BoolType(p)
    if tag == "string":
        return ct.StringType(p)
    if tag == "bytes":
        return ct.BytesType(p)
    if tag == "null":
        return None
    if tag == "list":
        return ct.ListType([to_cel(x) for x in p])
    if tag == "map":
        m = ct.MapType()
        for k, v in p:
            m[to_cel(k)] = to_cel(v)
        return m
    if tag == "ts":
        days, rem = divmod(p, 86400 * 10**6)
        y, mo, d = civil.civil_from_days(days)
        sec, us = divmod(rem, 10**6)
        return ct.TimestampType(
            datetime.datetime(y, mo, d, sec // 3600, sec % 3600 // 60, sec % 60, us, tzinfo=datetime.timezone.utc)
        )
    if tag == "dur":
        return ct.DurationType(datetime.timedelta(microseconds=p))
    if tag == "type":
        return TYPE_OBJECTS()[p]
    if tag == "hostfn":
        # a host callable as the VALUE of a binding (celpy's Context type admits functions); p names a function of verifmon.hostfuncs
        from . import hostfuncs

        return getattr(hostfuncs, p)
    raise ValueError(tag)


def TYPE_OBJECTS():
    from celpy import celtypes as ct

    return {
        "int": ct.IntType,
        "uint": ct.UintType,
        "double": ct.DoubleType,
        "bool": ct.BoolType,
        "string": ct.StringType,
        "bytes": ct.BytesType,
        "list": ct.ListType,
        "map": ct.MapType,
        "null_type": type(None),
        "timestamp": ct.TimestampType,
        "duration": ct.DurationType,
        "type": ct.TypeType,
    }


def canon_of(mv: Tuple[str, Any]) -> Any:
    """The verifmon.core.canon form the library value for `mv` must have."""
    from .core import dbits

    tag, p = mv
    cls = CLASS_OF.get(tag)
    if tag == "int" or tag == "uint":
        return [cls, str(p)]
    if tag == "double":
        return [cls, dbits(p)]
    if tag == "bool":
        return [cls, bool(p)]
    if tag == "string":
        return [cls, p]
    if tag == "bytes":
        return [cls, bytes(p).hex()]
    if tag == "null":
        return ["NoneType", None]
    if tag == "list":
        return [cls, [canon_of(x) for x in p]]
    if tag == "map":
        import json

        items = [[canon_of(k), canon_of(v)] for k, v in p]
        items.sort(key=lambda kv: json.dumps(kv[0], sort_keys=True))
        return [cls, items]
    if tag in ("ts", "dur"):
        return [cls, str(p)]
    if tag == "type":
        return ["<type>", TYPE_OBJECTS()[p].__name__]
    raise ValueError(tag)


def same_value_ignoring_class(c_obs: Any, c_exp: Any) -> bool:
    """Compare canon forms but accept a native Python class in place of the library class.

    Used by properties about *values* (C01, C09, C11 ...) so that the type-wrapping
    defects, which are C13's business, do not leak into them.
    """
    if not (isinstance(c_obs, list) and isinstance(c_exp, list)) or not c_obs or not c_exp:
        return c_obs == c_exp
    co, ce = c_obs[0], c_exp[0]
    if co != ce:
        to = TAG_OF.get(co) or NATIVE_TAG.get(co)
        te = TAG_OF.get(ce)
        if co == "int" and ce in ("IntType", "UintType"):
            pass
        elif to is None or to != te:
            return False
    if ce in ("ListType",):
        if len(c_obs[1]) != len(c_exp[1]):
            return False
        return all(same_value_ignoring_class(a, b) for a, b in zip(c_obs[1], c_exp[1]))
    if ce in ("MapType",):
        if len(c_obs[1]) != len(c_exp[1]):
            return False
        # items are sorted by key canon; class of key may differ -> compare as multiset
        rest = list(c_exp[1])
        for k, v in c_obs[1]:
            for i, (k2, v2) in enumerate(rest):
                if same_value_ignoring_class(k, k2) and same_value_ignoring_class(v, v2):
                    del rest[i]
                    break
            else:
                return False
        return True
    return c_obs[1:] == c_exp[1:]


# --------------------------------------------------------------------------
# literal printer (conservative spellings only; the exotic ones belong to C07)
# --------------------------------------------------------------------------

_SIMPLE = {"\\": "\\\\", '"': '\\"', "\n": "\\n", "\r": "\\r", "\t": "\\t", "\a": "\\a", "\b": "\\b", "\f": "\\f", "\v": "\\v"}


def str_lit(s: str) -> str:
    out = []
    for ch in s:
        o = ord(ch)
        if ch in _SIMPLE:
            out.append(_SIMPLE[ch])
        elif o < 0x20 or o == 0x7F:
            out.append(f"\\x{o:02x}")
        elif o < 0x7F:
            out.append(ch)
        elif o <= 0xFFFF:
            out.append(f"\\u{o:04x}")
        else:
            out.append(f"\\U{o:08x}")
    return '"' + "".join(out) + '"'


def bytes_lit(b: bytes) -> str:
    out = []
    for o in b:
        ch = chr(o)
        if ch in _SIMPLE:
            out.append(_SIMPLE[ch])
        elif 0x20 <= o < 0x7F:
            out.append(ch)
        else:
            out.append(f"\\x{o:02x}")
    return 'b"' + "".join(out) + '"'


def double_lit(f: float) -> str:
    if f != f or f in (math.inf, -math.inf):
        raise ValueError("no literal for non-finite double")
    r = repr(float(f))
    if "e" in r or "E" in r:
        mant, exp = r.lower().split("e")
        if "." not in mant:
            mant += ".0"
        return mant + "e" + exp
    return r


def lit(mv: Tuple[str, Any]) -> str:
    tag, p = mv
    if tag == "int":
        return str(p)
    if tag == "uint":
        return f"{p}u"
    if tag == "double":
        return double_lit(p)
    if tag == "bool":
        return "true" if p else "false"
    if tag == "string":
        return str_lit(p)
    if tag == "bytes":
        return bytes_lit(p)
    if tag == "null":
        return "null"
    if tag == "list":
        return "[" + ", ".join(lit(x) for x in p) + "]"
    if tag == "map":
        return "{" + ", ".join(f"{lit(k)}: {lit(v)}" for k, v in p) + "}"
    if tag == "ts":
        return f"timestamp({str_lit(ts_text(p))})"
    if tag == "dur":
        sign = "-" if p < 0 else ""
        s, us = divmod(abs(p), 10**6)
        if us:
            if s >= 10**9:
                raise ValueError("no exact literal for this duration (bind it instead)")
            return f'duration("{sign}{s}s{us}us")'
        return f'duration("{sign}{s}s")'
    if tag == "type":
        return p
    raise ValueError(tag)


# --------------------------------------------------------------------------
# generators
# --------------------------------------------------------------------------

_KS = (7, 8, 15, 16, 31, 32, 52, 53, 62)


def int_boundaries() -> List[int]:
    vals = {INT_MIN, INT_MIN + 1, INT_MIN + 2, -2, -1, 0, 1, 2, 3, -3, 7, -7, 10, -10, INT_MAX - 2, INT_MAX - 1, INT_MAX}
    for k in _KS:
        for d in (-1, 0, 1):
            vals.add(2**k + d)
            vals.add(-(2**k) + d)
    vals.update({3037000499, 3037000500, -3037000500, 4294967296 * 3, INT_MAX // 2, INT_MAX // 2 + 1, INT_MIN // 2, INT_MIN // 2 - 1})
    return sorted(v for v in vals if INT_MIN <= v <= INT_MAX)


def uint_boundaries() -> List[int]:
    vals = {0, 1, 2, 3, 7, 10, UINT_MAX, UINT_MAX - 1, UINT_MAX - 2, 2**63 - 1, 2**63, 2**63 + 1, 4294967295, 4294967296, 4294967297}
    for k in _KS + (63,):
        for d in (-1, 0, 1):
            vals.add(2**k + d)
    vals.update({UINT_MAX // 2, UINT_MAX // 2 + 1, UINT_MAX // 3})
    return sorted(v for v in vals if 0 <= v <= UINT_MAX)


def double_boundaries(nan: bool = False) -> List[float]:
    tiny = 5e-324
    vals = [0.0, -0.0, tiny, -tiny, 1.0, -1.0, 0.5, -0.5, 0.1, 0.2, 0.3, 1.5, -2.5, 3.0, 1e-300, 1e300, -1e300,
            float(2**53), float(2**53 + 2), float(2**53 - 1), -float(2**53), float(2**63), -float(2**63), float(2**64),
            1.7976931348623157e308, -1.7976931348623157e308, 2.2250738585072014e-308, math.inf, -math.inf, 1e16, 123456789.125,
            9.223372036854775e18, 9.223372036854777e18, 1.8446744073709552e19, 1.844674407370955e19]
    if nan:
        vals.append(math.nan)
    return vals


def rand_int(rnd) -> int:
    r = rnd.random()
    if r < 0.45:
        return rnd.choice(_INT_B)
    if r < 0.7:
        return rnd.randint(-20, 20)
    if r < 0.85:
        return rnd.randint(INT_MIN, INT_MAX)
    k = rnd.randint(1, 63)
    v = rnd.randint(-(2**k), 2**k)
    return max(INT_MIN, min(INT_MAX, v))


def rand_uint(rnd) -> int:
    r = rnd.random()
    if r < 0.45:
        return rnd.choice(_UINT_B)
    if r < 0.7:
        return rnd.randint(0, 20)
    if r < 0.85:
        return rnd.randint(0, UINT_MAX)
    return rnd.randint(0, 2 ** rnd.randint(1, 64) - 1)


def rand_double(rnd, nan: bool = False, finite: bool = False) -> float:
    while True:
        r = rnd.random()
        if r < 0.4:
            v = rnd.choice(_DBL_B_NAN if nan else _DBL_B)
        elif r < 0.6:
            v = float(rnd.randint(-50, 50)) / rnd.choice([1, 2, 4, 8, 10, 3])
        elif r < 0.8:
            v = struct.unpack(">d", struct.pack(">Q", rnd.getrandbits(64)))[0]
            if v != v and not nan:
                continue
        else:
            v = rnd.uniform(-1e6, 1e6)
        if finite and (v != v or v in (math.inf, -math.inf)):
            continue
        return v


_ALPHABETS = [
    "ab",
    "abc xyz",
    "aB0_",
    "\"'\\",
    "\n\r\t\x00\x7f\x1b",
    "éüßÿ",
    "Ж中€✌�",
    "\U0001f431\U0001f600\U00010000\U0010ffff",
    "éä",
    ".*+?()[]{}|^$",
    "\ufeff\u200b\u2028\u0301\u00a0\u200d",
]
# strings whose interesting character sits at a particular position (decoders that strip/normalise)
SPECIAL_STRINGS = ["$", "$$", "${n}", "$n $$ ${left}", "{}", "{0}", "%s", "%(x)s", "\\1", "#{x}", "\ufeff", "\ufeffabc", "a\ufeff", "\ufeff\ufeff", " \t", "abc ", "\u0301a", "a\u0000b", "\U0010ffff", "\ud7ff\ue000", "\u00e9", "e\u0301", "\r\n", "\x85", "\u2028x"]


def rand_string(rnd, maxlen: int = 8) -> str:
    r = rnd.random()
    if r < 0.12:
        return ""
    if r < 0.2:
        return rnd.choice(SPECIAL_STRINGS)
    n = rnd.randint(1, maxlen)
    if r < 0.5:
        alpha = rnd.choice(_ALPHABETS[:3])
    elif r < 0.8:
        alpha = rnd.choice(_ALPHABETS)
    else:
        alpha = "".join(_ALPHABETS)
    return "".join(rnd.choice(alpha) for _ in range(n))


def rand_bytes(rnd, maxlen: int = 8) -> bytes:
    r = rnd.random()
    if r < 0.12:
        return b""
    n = rnd.randint(1, maxlen)
    if r < 0.4:
        return bytes(rnd.choice(b"abc") for _ in range(n))
    if r < 0.6:
        return rand_string(rnd, maxlen).encode("utf-8")
    if r < 0.8:
        return bytes(rnd.choice([0, 1, 0x7F, 0x80, 0xC0, 0xFF, 0xFE, 0x22, 0x27, 0x5C, 0x0A]) for _ in range(n))
    return bytes(rnd.getrandbits(8) for _ in range(n))


def ts_boundaries() -> List[int]:
    out = {TS_MIN_US, TS_MIN_US + 1, TS_MAX_US, TS_MAX_US - 999999, 0, -1, 1, 1234567890 * 10**6}
    D = 86400 * 10**6
    for (y, m, d) in [(1, 1, 1), (1, 12, 31), (2, 1, 1), (999, 12, 31), (1000, 1, 1), (1582, 10, 15), (1600, 2, 29), (1900, 2, 28), (1900, 3, 1),
                      (1969, 12, 31), (1970, 1, 1), (1999, 12, 31), (2000, 1, 1), (2000, 2, 29), (2000, 3, 1), (2000, 12, 31), (2001, 1, 1), (2020, 2, 29),
                      (2021, 3, 14), (2021, 11, 7), (2023, 3, 26), (2023, 10, 29), (2038, 1, 19), (2100, 2, 28), (2100, 3, 1), (9999, 1, 1), (9999, 12, 31)]:
        base = civil.days_from_civil(y, m, d) * D
        for off in (0, 1, D - 1, D // 2, 3600 * 10**6 * 2 - 1, 3600 * 10**6 * 2, 3600 * 10**6 * 7):
            v = base + off
            if TS_MIN_US <= v <= TS_MAX_US:
                out.add(v)
    return sorted(out)


def rand_ts(rnd, whole_seconds: bool = False) -> int:
    r = rnd.random()
    if r < 0.45:
        v = rnd.choice(_TS_B)
    elif r < 0.7:
        v = rnd.randint(TS_MIN_US, TS_MAX_US)
    else:
        v = rnd.randint(-2 * 10**15, 4 * 10**15)  # 1906 .. 2096
    if whole_seconds:
        v -= v % 10**6
        if v < TS_MIN_US:
            v += 10**6
    return v


def dur_boundaries() -> List[int]:
    S = 10**6
    out = {0, 1, -1, S, -S, 999999, -999999, 59 * S, 60 * S, 61 * S, 3599 * S, 3600 * S, 86399 * S, 86400 * S, -86400 * S, 86400 * S + 1,
           DUR_MAX_US, -DUR_MAX_US, DUR_MAX_US - S, -DUR_MAX_US + S, DUR_MAX_US - 1, 1500000, -1500000, 2**31 * S, (2**31 - 1) * S, 2**53, 2**53 + 1}
    return sorted(out)


def rand_dur(rnd, whole_seconds: bool = False) -> int:
    r = rnd.random()
    if r < 0.4:
        v = rnd.choice(_DUR_B)
    elif r < 0.7:
        v = rnd.randint(-10**4, 10**4) * 10**6 + rnd.choice([0, 0, 1, 500000, 999999, rnd.randint(0, 999999)])
    elif r < 0.85:
        v = rnd.randint(-DUR_MAX_US, DUR_MAX_US)
    else:
        v = rnd.randint(-10**12, 10**12)
    if whole_seconds:
        v = int(v / 10**6) * 10**6
    return v


_INT_B = int_boundaries()
_UINT_B = uint_boundaries()
_DBL_B = double_boundaries(False)
_DBL_B_NAN = double_boundaries(True)
_TS_B = ts_boundaries()
_DUR_B = dur_boundaries()

SCALAR_TAGS = ("int", "uint", "double", "bool", "string", "bytes", "null", "ts", "dur")


def rand_scalar(rnd, tag: str, nan: bool = False) -> Tuple[str, Any]:
    if tag == "int":
        return ("int", rand_int(rnd))
    if tag == "uint":
        return ("uint", rand_uint(rnd))
    if tag == "double":
        return ("double", rand_double(rnd, nan=nan))
    if tag == "bool":
        return ("bool", rnd.random() < 0.5)
    if tag == "string":
        return ("string", rand_string(rnd))
    if tag == "bytes":
        return ("bytes", rand_bytes(rnd))
    if tag == "null":
        return ("null", None)
    if tag == "ts":
        return ("ts", rand_ts(rnd))
    if tag == "dur":
        return ("dur", rand_dur(rnd))
    if tag == "type":
        return ("type", rnd.choice(["int", "uint", "double", "bool", "string", "bytes", "list", "map", "null_type", "timestamp", "duration", "type"]))
    raise ValueError(tag)


def rand_value(rnd, t: Any, depth: int = 0, maxsize: int = 4) -> Tuple[str, Any]:
    """Value of static type t: a scalar tag, ('list', T) or ('map', K, V)."""
    if isinstance(t, str):
        return rand_scalar(rnd, t)
    if t[0] == "list":
        n = rnd.choice([0, 1, 1, 2, 2, 3, maxsize])
        return ("list", tuple(rand_value(rnd, t[1], depth + 1, maxsize) for _ in range(n)))
    if t[0] == "map":
        n = rnd.choice([0, 1, 2, 2, 3, maxsize])
        items, seen = [], set()
        for _ in range(n * 3):
            if len(items) >= n:
                break
            k = rand_value(rnd, t[1], depth + 1, maxsize)
            if k in seen:
                continue
            seen.add(k)
            items.append((k, rand_value(rnd, t[2], depth + 1, maxsize)))
        return ("map", tuple(items))
    raise ValueError(t)


# --------------------------------------------------------------------------
# JSON encoding of model values (replay files)
# --------------------------------------------------------------------------


def enc(mv):
    tag, p = mv
    if tag == "bytes":
        return [tag, bytes(p).hex()]
    if tag == "double":
        return [tag, "nan" if p != p else float(p).hex()]
    if tag == "list":
        return [tag, [enc(x) for x in p]]
    if tag == "map":
        return [tag, [[enc(k), enc(v)] for k, v in p]]
    return [tag, p]


def dec(j):
    tag, p = j
    if tag == "bytes":
        return (tag, bytes.fromhex(p))
    if tag == "double":
        return (tag, float("nan") if p == "nan" else float.fromhex(p))
    if tag == "list":
        return (tag, tuple(dec(x) for x in p))
    if tag == "map":
        return (tag, tuple((dec(k), dec(v)) for k, v in p))
    return (tag, p)


def enc_env(env):
    return {k: enc(v) for k, v in env.items()}


def dec_env(j):
    return {k: dec(v) for k, v in j.items()}


def cel_env(env):
    return {k: to_cel(v) for k, v in env.items()}
