"""Worker process: runs one share of one property's workload and writes a JSON partial."""

from __future__ import annotations

import faulthandler
import importlib
import json
import os
import sys
import traceback


def main(argv):
    prop, tier, seed, k, n, budget, out = argv
    from verifmon.core import Ctx

    faulthandler.enable()
    faulthandler.dump_traceback_later(float(budget) * 3 + 120, exit=True)
    sys.setrecursionlimit(2500)
    ctx = Ctx(prop, tier, int(seed), int(k), int(n), float(budget))
    mod = importlib.import_module(f"verifmon.props.{prop.lower()}")
    status = "ok"
    err = None
    try:
        mod.run(ctx)
    except BaseException:  # harness failure, never a verdict
        status = "crash"
        err = traceback.format_exc()
    res = ctx.acc.to_json()
    res["status"] = status
    res["error"] = err
    tmp = out + ".tmp"
    with open(tmp, "w") as f:
        json.dump(res, f)
    os.replace(tmp, out)
    return 0


if __name__ == "__main__":
    sys.exit(main(sys.argv[1:]))
