"""Type-directed random generator of CEL programs (AST + static type + bindings)."""

from __future__ import annotations

from typing import Any, Dict, List, Optional, Tuple

from . import mv as MV
from .lang import Node

SCALARS = ("int", "uint", "double", "bool", "string", "bytes")
ELEM_TYPES = ("int", "uint", "bool", "string")
KEY_TYPES = ("int", "uint", "bool", "string")


def L(mv) -> Node:
    return Node("lit", mv[0] if mv[0] not in ("list", "map") else None, mv)


class TGen:
    """
    features: subset of {'arith','time','macros','conv','strings','containers','double','bytes','type'}
    small: use small value pools (collisions, in-range indexes) instead of boundary values
    """

    def __init__(self, rnd, features=None, small: bool = False, maxdepth: int = 4, errors: float = 0.0, nan: bool = False, chaos: float = 0.0):
        self.rnd = rnd
        self.f = set(features or ["arith", "time", "macros", "conv", "strings", "containers", "double", "bytes", "type"])
        self.small = small
        self.maxdepth = maxdepth
        self.errors = errors
        self.nan = nan
        self.chaos = chaos
        self.bindings: Dict[str, Tuple[Any, Any]] = {}  # name -> (type, mv)
        self.counter = 0
        self.scope: List[Tuple[str, Any]] = []  # macro variables in scope (name, type)

    # ---- values
    def value(self, t):
        r = self.rnd
        if self.small:
            if t == "int":
                return ("int", r.randint(-3, 4))
            if t == "uint":
                return ("uint", r.randint(0, 4))
            if t == "string":
                return ("string", "".join(r.choice("ab\U0001f431") for _ in range(r.randint(0, 3))))
            if t == "double":
                return ("double", r.choice([0.0, 1.0, -1.0, 0.5, 2.0, -0.0, 1e300]))
            if t == "bytes":
                return ("bytes", bytes(r.choice(b"ab\xff") for _ in range(r.randint(0, 3))))
        if t == "double":
            return ("double", MV.rand_double(r, nan=self.nan))
        return MV.rand_value(r, t)

    def fresh_var(self, t) -> Node:
        # reuse an existing variable of this type half of the time
        same = [n for n, (tt, _) in self.bindings.items() if tt == t]
        if same and self.rnd.random() < 0.5:
            return Node("var", t, self.rnd.choice(same))
        self.counter += 1
        name = f"v{self.counter}"
        self.bindings[name] = (t, self.value(t))
        return Node("var", t, name)

    def leaf(self, t) -> Node:
        r = self.rnd
        visible = {}
        for n, tt in self.scope:  # an inner macro variable shadows an outer one of the same name
            visible[n] = tt
        in_scope = [n for n, tt in visible.items() if tt == t]
        if in_scope and r.random() < 0.6:
            return Node("var", t, r.choice(in_scope))
        if isinstance(t, tuple) or t in ("ts", "dur"):
            if r.random() < 0.5 or t in ("ts", "dur"):
                if t in ("ts", "dur") and r.random() < 0.3:
                    v = self.value(t)
                    if v[1] % 10**6 == 0 or (t == "dur" and abs(v[1]) < 10**15):
                        try:
                            MV.lit(v)
                            return Node("lit", t, v)
                        except ValueError:
                            pass
                return self.fresh_var(t)
            if t[0] == "list":
                n = r.choice([0, 1, 2, 3])
                return Node("list", t, *[self.leaf(t[1]) for _ in range(n)])
            if t[0] == "map":
                v = self.value(t)
                return Node("map", t, *[(Node("lit", t[1], k), Node("lit", t[2], x) if isinstance(t[2], str) else self._lit_any(t[2], x)) for k, x in v[1]])
        if t == "type":
            return Node("var", "type", r.choice(["int", "uint", "double", "bool", "string", "bytes", "list", "map", "null_type", "timestamp", "duration", "type"]))
        if r.random() < 0.5:
            return self.fresh_var(t)
        v = self.value(t)
        if t == "double" and (v[1] != v[1] or v[1] in (float("inf"), float("-inf"))):
            self.counter += 1
            name = f"v{self.counter}"
            self.bindings[name] = (t, v)
            return Node("var", t, name)
        return Node("lit", t, v)

    def err_leaf(self, t, d) -> Node:
        """A sub-expression of static type t whose evaluation is an error."""
        r = self.rnd
        opts = ["index", "key", "unbound", "cond"]
        if t == "int":
            opts += ["div0", "mod0", "ovf", "conv"]
        if t == "uint":
            opts += ["udiv0", "uovf"]
        if t == "bool":
            opts += ["cmp0"]
        c = r.choice(opts)
        I = lambda v: Node("lit", "int", ("int", v))
        U = lambda v: Node("lit", "uint", ("uint", v))
        if c == "index":
            return Node("index", t, Node("list", ("list", t), self.leaf(t)), I(r.choice([1, 7, 2**40])))
        if c == "key":
            return Node("field", t, Node("map", ("map", "string", t), (Node("lit", "string", ("string", "a")), self.leaf(t))), "zz")
        if c == "unbound":
            return Node("var", t, r.choice(["unbound_q", "nope"]))
        if c == "cond":
            bad = Node("bin", "bool", ">", Node("bin", "int", "/", I(1), I(0)), I(0))
            return Node("cond", t, bad, self.leaf(t), self.leaf(t))
        if c == "div0":
            return Node("bin", "int", "/", self.leaf("int"), I(0))
        if c == "mod0":
            return Node("bin", "int", "%", self.leaf("int"), I(0))
        if c == "ovf":
            return Node("bin", "int", r.choice(["+", "*"]), I(MV.INT_MAX), I(r.choice([1, 2, MV.INT_MAX])))
        if c == "conv":
            return Node("call", "int", "int", Node("lit", "string", ("string", r.choice(["z", "", "1.5x"]))))
        if c == "udiv0":
            return Node("bin", "uint", r.choice(["/", "%"]), self.leaf("uint"), U(0))
        if c == "uovf":
            return Node("bin", "uint", "-", U(0), U(1))
        if c == "cmp0":
            return Node("bin", "bool", r.choice(["<", "==", ">="]), Node("bin", "int", "/", I(1), I(0)), I(0))
        raise AssertionError(c)

    def _lit_any(self, t, v) -> Node:
        if isinstance(t, str):
            return Node("lit", t, v)
        if t[0] == "list":
            return Node("list", t, *[self._lit_any(t[1], x) for x in v[1]])
        return Node("map", t, *[(self._lit_any(t[1], k), self._lit_any(t[2], x)) for k, x in v[1]])

    def rand_type(self, depth=0, scalar_only=False):
        r = self.rnd
        pool = ["int", "uint", "bool", "string"]
        if "double" in self.f:
            pool.append("double")
        if "bytes" in self.f:
            pool.append("bytes")
        if "time" in self.f and r.random() < 0.3:
            pool += ["ts", "dur"]
        if scalar_only or depth >= 2 or "containers" not in self.f or r.random() < 0.6:
            return r.choice(pool)
        if r.random() < 0.6:
            return ("list", self.rand_type(depth + 1))
        return ("map", r.choice(KEY_TYPES), self.rand_type(depth + 1))

    # ---- expressions
    def gen(self, t, d: Optional[int] = None) -> Node:
        if d is None:
            d = self.maxdepth
        r = self.rnd
        if self.chaos and r.random() < self.chaos:
            t = r.choice([self.rand_type(), self.rand_type(), "null", "ts", "dur", "type", "double", "bytes"])
        if self.errors and r.random() < self.errors:
            return self.err_leaf(t, d)
        if d <= 0 or r.random() < 0.12:
            return self.leaf(t)
        prods = self.productions(t)
        if not prods:
            return self.leaf(t)
        for _ in range(4):
            p = r.choice(prods)
            n = p(d - 1)
            if n is not None:
                return n
        return self.leaf(t)

    def productions(self, t):
        f = self.f
        P = []
        g = self.gen
        r = self.rnd

        def cond(d):
            return Node("cond", t, g("bool", d), g(t, d), g(t, d))

        P.append(cond)
        if "containers" in f:

            def idx_list(d):
                lt = ("list", t)
                ln = g(lt, d)
                return Node("index", t, ln, self.index_for(ln, d))

            def idx_map(d):
                kt = r.choice(KEY_TYPES)
                mt = ("map", kt, t)
                return Node("index", t, g(mt, d), g(kt, min(d, 1)))

            def fld(d):
                mt = ("map", "string", t)
                v = self.value(mt)
                keys = ["a", "b", "zz"]
                items = [(Node("lit", "string", ("string", k)), g(t, min(d, 1))) for k in keys[: r.randint(1, 2)]]
                return Node("field", t, Node("map", mt, *items), r.choice(keys))

            P += [idx_list, idx_map, fld]

        if t == "bool":
            P += [self.p_not, self.p_and, self.p_or, self.p_rel, self.p_rel, self.p_eq, self.p_eq]
            if "containers" in f:
                P += [self.p_in_list, self.p_in_map, self.p_has, self.p_null_field]
            if "strings" in f:
                P += [self.p_strpred]
            if "macros" in f:
                P += [self.p_quant, self.p_quant]
            if "type" in f:
                P += [self.p_type_eq]
        elif t in ("int", "uint", "double"):
            if "arith" in f:
                P += [lambda d, t=t: self.p_arith(t, d)] * 3
                if t != "uint":
                    P.append(lambda d, t=t: Node("un", t, "-", g(t, d)))
            if t == "int":
                P += [self.p_size]
                if "time" in f:
                    P.append(self.p_accessor)
            if "conv" in f:
                P.append(lambda d, t=t: self.p_conv_num(t, d))
        elif t == "string":
            P += [lambda d: Node("bin", "string", "+", g("string", d), g("string", d))]
            if "conv" in f:
                P.append(self.p_conv_str)
        elif t == "bytes":
            P += [lambda d: Node("bin", "bytes", "+", g("bytes", d), g("bytes", d))]
            if "conv" in f:
                P.append(lambda d: Node("call", "bytes", "bytes", g("string", d)))
        elif t == "ts":
            P += [
                lambda d: Node("bin", "ts", "+", g("ts", d), g("dur", d)),
                lambda d: Node("bin", "ts", "+", g("dur", d), g("ts", d)),
                lambda d: Node("bin", "ts", "-", g("ts", d), g("dur", d)),
            ]
        elif t == "dur":
            P += [
                lambda d: Node("bin", "dur", "-", g("ts", d), g("ts", d)),
                lambda d: Node("bin", "dur", "+", g("dur", d), g("dur", d)),
                lambda d: Node("bin", "dur", "-", g("dur", d), g("dur", d)),
            ]
        elif t == "type":
            P += [lambda d: Node("call", "type", "type", g(self.rand_type(), d))]
        elif isinstance(t, tuple) and t[0] == "list":
            P += [lambda d: Node("bin", t, "+", g(t, d), g(t, d)), lambda d: Node("list", t, *[g(t[1], d) for _ in range(r.randint(0, 3))])]
            if "macros" in f:
                P += [lambda d: self.p_map(t, d), lambda d: self.p_filter(t, d)]
        elif isinstance(t, tuple) and t[0] == "map":

            def mk(d):
                v = self.value(t)
                return Node("map", t, *[(Node("lit", t[1], k), g(t[2], min(d, 1))) for k, _ in v[1]])

            P += [mk]
        return P

    def index_for(self, ln: Node, d) -> Node:
        r = self.rnd
        if r.random() < 0.7:
            return Node("lit", "int", ("int", r.choice([0, 0, 1, 1, 2, 3, -1, 5])))
        return self.gen("int", min(d, 1))

    def p_not(self, d):
        return Node("un", "bool", "!", self.gen("bool", d))

    def p_and(self, d):
        return Node("bin", "bool", "&&", self.gen("bool", d), self.gen("bool", d))

    def p_or(self, d):
        return Node("bin", "bool", "||", self.gen("bool", d), self.gen("bool", d))

    def p_rel(self, d):
        pool = ["int", "uint", "string", "bool"]
        if "double" in self.f:
            pool.append("double")
        if "bytes" in self.f:
            pool.append("bytes")
        if "time" in self.f:
            pool += ["ts", "dur"]
        t = self.rnd.choice(pool)
        return Node("bin", "bool", self.rnd.choice(["<", "<=", ">", ">="]), self.gen(t, d), self.gen(t, d))

    def p_eq(self, d):
        t = self.rand_type()
        return Node("bin", "bool", self.rnd.choice(["==", "!="]), self.gen(t, d), self.gen(t, d))

    def p_in_list(self, d):
        et = self.rnd.choice(ELEM_TYPES)
        return Node("bin", "bool", "in", self.gen(et, min(d, 1)), self.gen(("list", et), d))

    def p_in_map(self, d):
        kt = self.rnd.choice(KEY_TYPES)
        return Node("bin", "bool", "in", self.gen(kt, min(d, 1)), self.gen(("map", kt, self.rand_type(1, True)), d))

    def p_has(self, d):
        vt = self.rand_type(1, True)
        mt = ("map", "string", vt)
        keys = ["a", "b"]
        items = [(Node("lit", "string", ("string", k)), self.gen(vt, min(d, 1))) for k in keys[: self.rnd.randint(0, 2)]]
        return Node("has", "bool", Node("map", mt, *items), self.rnd.choice(["a", "b", "c"]))

    def p_null_field(self, d):
        """A map entry that is present and null: selected with '.', indexed, tested with has(), compared with null."""
        r = self.rnd
        N = Node("lit", "null", ("null", None))
        items = [(Node("lit", "string", ("string", "n")), N)]
        if r.random() < 0.5:
            items.insert(r.randint(0, 1), (Node("lit", "string", ("string", "a")), N))  # homogeneous: the static type stays map<string, null>
        m = Node("map", ("map", "string", "null"), *items)
        c = r.random()
        if c < 0.2:
            return Node("has", "bool", m, "n")
        sel = Node("field", "null", m, "n") if c < 0.75 else Node("index", "null", m, Node("lit", "string", ("string", "n")))
        return Node("bin", "bool", r.choice(["==", "==", "!="]), sel, N) if r.random() < 0.8 else Node("bin", "bool", "==", N, sel)

    def p_strpred(self, d):
        fn = self.rnd.choice(["contains", "startsWith", "endsWith"])
        # both spellings: receiver.f(x) and the global form f(receiver, x)
        kind = "meth" if self.rnd.random() < 0.65 else "call"
        return Node(kind, "bool", fn, self.gen("string", d), self.gen("string", min(d, 1)))

    def macro_range(self, et, d):
        """The range of a macro: a list of et, or (one time in four) a map keyed by et -- macros iterate over map keys."""
        if et in KEY_TYPES and "containers" in self.f and self.rnd.random() < 0.25:
            return self.gen(("map", et, self.rand_type(1, True)), d)
        return self.gen(("list", et), d)

    def p_quant(self, d):
        et = self.rnd.choice(ELEM_TYPES)
        recv = self.macro_range(et, d)
        var = self.rnd.choice(["x", "y", "i", "e"])
        self.scope.append((var, et))
        try:
            body = self.gen("bool", d)
        finally:
            self.scope.pop()
        return Node("macro", "bool", self.rnd.choice(["all", "exists", "exists_one"]), recv, var, body)

    def p_map(self, t, d):
        et = self.rnd.choice(ELEM_TYPES)
        recv = self.macro_range(et, d)
        var = self.rnd.choice(["x", "y", "i", "e"])
        self.scope.append((var, et))
        try:
            body = self.gen(t[1], d)
        finally:
            self.scope.pop()
        return Node("macro", t, "map", recv, var, body)

    def p_filter(self, t, d):
        recv = self.macro_range(t[1], d) if not isinstance(t[1], tuple) else self.gen(t, d)
        var = self.rnd.choice(["x", "y", "i", "e"])
        self.scope.append((var, t[1]))
        try:
            body = self.gen("bool", d)
        finally:
            self.scope.pop()
        return Node("macro", t, "filter", recv, var, body)

    def p_type_eq(self, d):
        t = self.rand_type()
        names = ["int", "uint", "double", "bool", "string", "bytes", "list", "map", "null_type", "timestamp", "duration", "type"]
        return Node("bin", "bool", "==", Node("call", "type", "type", self.gen(t, d)), Node("var", "type", self.rnd.choice(names)))

    def p_arith(self, t, d):
        ops = ["+", "-", "*", "/"] + (["%"] if t != "double" else [])
        return Node("bin", t, self.rnd.choice(ops), self.gen(t, d), self.gen(t, d))

    def p_size(self, d):
        pool = ["string", ("list", self.rnd.choice(ELEM_TYPES)), ("map", self.rnd.choice(KEY_TYPES), "int")]
        if "bytes" in self.f:
            pool.append("bytes")
        t = self.rnd.choice(pool)
        if self.rnd.random() < 0.5:
            return Node("call", "int", "size", self.gen(t, d))
        return Node("meth", "int", "size", self.gen(t, d))

    def p_accessor(self, d):
        from .lang import ACCESSORS

        name = self.rnd.choice(ACCESSORS)
        args = [self.gen("ts", d)]
        if self.rnd.random() < 0.4:
            args.append(Node("lit", "string", ("string", self.rnd.choice(["UTC", "+05:30", "-08:00", "00:00", "+14:00", "-12:00"]))))
        return Node("meth" if self.rnd.random() < 0.75 else "call", "int", name, *args)

    def p_conv_num(self, t, d):
        src = self.rnd.choice([x for x in ("int", "uint", "double") if x != t and (x != "double" or "double" in self.f)] or ["int"])
        return Node("call", t, t, self.gen(src, d))

    def p_conv_str(self, d):
        src = self.rnd.choice(["int", "uint"] + (["bytes"] if "bytes" in self.f else []))
        return Node("call", "string", "string", self.gen(src, d))

    def model_env(self):
        return {n: v for n, (t, v) in self.bindings.items()}

    def redraw_env(self):
        """Another activation for the same program: the same names and types, freshly drawn values."""
        return {n: self.value(t) for n, (t, v) in self.bindings.items()}
