"""C17  Custodian helper functions implement their set, CIDR, tag and ARN semantics."""

from __future__ import annotations

import itertools

from .. import civil, core, diag, hooks, mv as MV

ID = "C17"
READY = True
LEVEL = "exploration"
WORKERS = {"quick": 8, "thorough": 16}
BUDGET = {"quick": 150, "thorough": 400}
MIN_NONTRIVIAL = {"quick": 3000, "thorough": 60000}
REQUIRED_HOOKS = ["direct", "evaluate:I", "evaluate:C", "context-history", "probe-saw-context", "celpy.c7nlib.intersect", "celpy.c7nlib.glob", "celpy.c7nlib.parse_cidr", "celpy.c7nlib.key", "celpy.c7nlib.arn_split"]
RULE = (
    "Each helper is called directly and through CEL (functions=c7nlib.FUNCTIONS, both runners) with generated inputs and compared with an independent model: "
    "set algebra on Python sets over small pools (empty, duplicates, disjoint, nested subsets); an own glob matcher (* ? [..] [!..]) over a small alphabet; CIDR by "
    "32-bit integer arithmetic for every prefix length 0..32 with addresses at the network edges; versions as integer tuples (1.9 vs 1.10, differing lengths); "
    "first-match tag lookup with repeated/missing keys; message:action@date decomposition with ':' inside the message; ARN fields for the three documented shapes. "
    "The filter context is checked as a 3-state machine (unset -> set(filter) -> unset) over histories of 1..30 evaluations mixing success, CELEvalError, a host "
    "ValueError and a host RuntimeError that escapes: a probe host function reads c7nlib.C7N during each evaluation and the harness reads it after each. "
    "Recording wrappers count the helper calls made through the engines. distinct_nontrivial = distinct (helper, inputs) cases."
)
ASSUMPTIONS = [
    "malformed networks (host bits set), ARNs with extra colons and exotic Unicode whitespace/case mapping are outside the statement and not generated",
    "glob patterns contain only well-formed bracket expressions",
]


# ---------------------------------------------------------------- models
def glob_match(text: str, pat: str) -> bool:
    """Shell-style matching: * ? [seq] [!seq] with ranges."""

    def parse_class(p, i):
        # p[i] == '['; returns (negate, set-predicate, next index) or None when unterminated
        j = i + 1
        neg = False
        if j < len(p) and p[j] == "!":
            neg = True
            j += 1
        start = j
        if j < len(p) and p[j] == "]":
            j += 1
        while j < len(p) and p[j] != "]":
            j += 1
        if j >= len(p):
            return None
        body = p[start:j]
        items = []
        k = 0
        while k < len(body):
            if k + 2 < len(body) and body[k + 1] == "-":
                items.append((body[k], body[k + 2]))
                k += 3
            else:
                items.append((body[k], body[k]))
                k += 1
        return neg, items, j + 1

    def m(ti, pi):
        while pi < len(pat):
            c = pat[pi]
            if c == "*":
                for k in range(ti, len(text) + 1):
                    if m(k, pi + 1):
                        return True
                return False
            if ti >= len(text):
                return False
            if c == "?":
                ti += 1
                pi += 1
            elif c == "[":
                pc = parse_class(pat, pi)
                if pc is None:
                    if text[ti] != "[":
                        return False
                    ti += 1
                    pi += 1
                else:
                    neg, items, nxt = pc
                    hit = any(lo <= text[ti] <= hi for lo, hi in items)
                    if hit == neg:
                        return False
                    ti += 1
                    pi = nxt
            else:
                if text[ti] != c:
                    return False
                ti += 1
                pi += 1
        return ti == len(text)

    return m(0, 0)


def ip_text(v: int) -> str:
    return ".".join(str((v >> s) & 255) for s in (24, 16, 8, 0))


def mask(prefix: int) -> int:
    return (0xFFFFFFFF << (32 - prefix)) & 0xFFFFFFFF if prefix else 0


def ver_tuple(s: str):
    t = [int(x) for x in s.split(".")]
    while len(t) > 1 and t[-1] == 0:
        t.pop()
    return tuple(t)


WS = " \t\n\r\x0b\x0c"


def normalize_model(s: str) -> str:
    i, j = 0, len(s)
    while i < j and s[i] in WS:
        i += 1
    while j > i and s[j - 1] in WS:
        j -= 1
    return "".join(chr(ord(c) + 32) if "A" <= c <= "Z" else c for c in s[i:j])


# ---------------------------------------------------------------- harness
class Ck:
    def __init__(self, acc):
        self.acc = acc
        c = core.celpy()
        import celpy.c7nlib as lib

        self.lib = lib
        self.ct = c.celtypes

    def cel(self, v):
        ct = self.ct
        if isinstance(v, bool):
            return ct.BoolType(v)
        if isinstance(v, int):
            return ct.IntType(v)
        if isinstance(v, str):
            return ct.StringType(v)
        if v is None:
            return None
        if isinstance(v, list):
            return ct.ListType([self.cel(x) for x in v])
        if isinstance(v, dict):
            return ct.MapType({self.cel(k): self.cel(x) for k, x in v.items()})
        raise ValueError(v)

    def judge(self, fn, kind, path, obs, exp, args):
        self.acc.evaluations += 1
        self.acc.cell(fn, kind, path, "ok" if obs == exp else "differ")
        if obs != exp:
            self.acc.violation(
                f"{path} {fn} {kind} obs={str(obs)[:24]} exp={str(exp)[:24]}",
                f"[{path}] {fn}({', '.join(repr(a)[:60] for a in args)}) gave {obs!r:.80}, expected {exp!r:.80}",
                {"fn": fn, "args": args, "kind": kind},
            )

    def both(self, fn, kind, args, exp, src, direct):
        """direct: callable performing the direct call and returning a plain Python result."""
        self.acc.nt([fn, args])
        self.acc.hook("direct")
        try:
            obs = direct()
        except Exception as ex:
            obs = "raised " + type(ex).__name__
        self.judge(fn, kind, "direct", obs, exp, args)
        binds = {f"a{i}": self.cel(a) for i, a in enumerate(args)}
        for r in "IC":
            out = core.api_eval(r, src, binds, functions=self.lib.FUNCTIONS)
            self.acc.hook("evaluate:" + r)
            if out[0] == "V":
                obs = plain(out[1])
            else:
                obs = diag.oclass(out).split("@")[0]
            self.judge(fn, kind, "cel:" + r, obs, exp, args)


def plain(c):
    """canon -> plain Python (bools, ints, strings, None, lists, dicts)."""
    k = c[0]
    if k == "NoneType":
        return None
    if k in ("BoolType", "bool"):
        return bool(c[1])
    if k in ("IntType", "UintType", "int"):
        return int(c[1])
    if k in ("StringType", "str"):
        return c[1]
    if k in ("ListType", "list"):
        return [plain(x) for x in c[1]]
    if k in ("MapType", "dict"):
        return {plain(a): plain(b) for a, b in c[1]}
    if k in ("TimestampType", "datetime"):
        return ("ts", int(c[1]))
    return ("?", k)


def set_cases(ck, rnd, n):
    pools = [["a", "b", "c", "d"], [1, 2, 3, 4], ["x", "", "X", " x"]]
    for _ in range(n):
        pool = rnd.choice(pools)
        mk = lambda: [rnd.choice(pool) for _ in range(rnd.choice([0, 0, 1, 2, 3, 5]))]
        a, b = mk(), mk()
        r = rnd.random()
        if r < 0.15:
            b = list(a)
        elif r < 0.3:
            b = a + [rnd.choice(pool)]
        elif r < 0.4:
            b = [x for x in pool if x not in a]
        kind = "empty" if not a or not b else ("equal-sets" if set(a) == set(b) else ("subset" if set(a) <= set(b) else ("disjoint" if not set(a) & set(b) else "overlap")))
        ck.both("intersect", kind, [a, b], bool(set(a) & set(b)), "intersect(a0, a1)", lambda: bool(ck.lib.intersect(ck.cel(a), ck.cel(b))))
        ck.both("difference", kind, [a, b], bool(set(a) - set(b)), "a0.difference(a1)", lambda: bool(ck.lib.difference(ck.cel(a), ck.cel(b))))
        ck.both("unique_size", "dups" if len(set(a)) < len(a) else "nodups", [a], len(set(a)), "unique_size(a0)", lambda: int(ck.lib.unique_size(ck.cel(a))))


def normalize_cases(ck, rnd, n):
    for _ in range(n):
        s = "".join(rnd.choice(["a", "B", "Z", " ", "\t", "\n", "1", "-", "x", "Y"]) for _ in range(rnd.randint(0, 8)))
        kind = "padded" if s != s.strip(WS) else "plain"
        ck.both("normalize", kind, [s], normalize_model(s), "normalize(a0)", lambda: str(ck.lib.normalize(ck.cel(s))))


    # lower case is not case folding (sharp s, final sigma, ligatures, long s, micro sign) and not ASCII-only either
    for s in (" Stra\u00dfe ", "\u03a3\u038a\u03a3\u03a5\u03a6\u039f\u03a3", "\ufb01n", "\u017f", "\u00b5M", "\u1e9e", "\u00c9COLE ", "\u212a", "\u01c5"):
        ck.both("normalize", "case-folding", [s], s.strip().lower(), "normalize(a0)", lambda: str(ck.lib.normalize(ck.cel(s))))


def glob_cases(ck, rnd, n):
    atoms = ["a", "b", "c", "*", "?", "[ab]", "[!a]", "[a-c]", "[!a-b]", ".", "ab", "**", "[b]", "[!c]"]
    for _ in range(n):
        pat = "".join(rnd.choice(atoms) for _ in range(rnd.randint(0, 4)))
        text = "".join(rnd.choice("abc.d") for _ in range(rnd.randint(0, 5)))
        if rnd.random() < 0.3 and "[" not in pat:
            # derive a text that matches: fill wildcards
            text = "".join(rnd.choice(["", "a", "bc"]) if ch == "*" else (rnd.choice("abc") if ch == "?" else ch) for ch in pat)
        exp = glob_match(text, pat)
        kind = ("class" if "[" in pat else ("wild" if "*" in pat or "?" in pat else "literal")) + ("-match" if exp else "-nomatch")
        ck.both("glob", kind, [text, pat], exp, "a0.glob(a1)", lambda: bool(ck.lib.glob(ck.cel(text), ck.cel(pat))))


def cidr_cases(ck, rnd, ctx):
    k = 0
    for prefix in range(0, 33):
        base = rnd.getrandbits(32) & mask(prefix)
        net = f"{ip_text(base)}/{prefix}"
        size = 1 << (32 - prefix)
        k += 1
        if not ctx.mine(k):
            continue
        ck.both("size_parse_cidr", "network", [net], prefix, "size_parse_cidr(a0)", lambda: (lambda v: None if v is None else int(v))(ck.lib.size_parse_cidr(ck.cel(net))))
        # addresses at and just outside the edges
        for addr in {base, base + size - 1, (base - 1) & 0xFFFFFFFF, (base + size) & 0xFFFFFFFF, (base + size // 2) & 0xFFFFFFFF, rnd.getrandbits(32)}:
            exp = (addr & mask(prefix)) == base
            a = ip_text(addr)
            ck.both("parse_cidr.contains", "address-" + ("inside" if exp else "outside"), [net, a], exp, "parse_cidr(a0).contains(parse_cidr(a1))", lambda: bool(ck.lib.parse_cidr(net).contains(ck.lib.parse_cidr(a))))
        # sub / super / sibling networks
        for p2 in {prefix, min(32, prefix + 1), min(32, prefix + 8), max(0, prefix - 1), 32, 0}:
            for b2 in {base & mask(p2), (base + size - 1) & mask(p2), (base + size) & 0xFFFFFFFF & mask(p2), rnd.getrandbits(32) & mask(p2)}:
                exp = p2 >= prefix and (b2 & mask(prefix)) == base
                n2 = f"{ip_text(b2)}/{p2}"
                ck.both("parse_cidr.contains", "network-" + ("inside" if exp else "outside"), [net, n2], exp, "parse_cidr(a0).contains(parse_cidr(a1))", lambda: bool(ck.lib.parse_cidr(net).contains(ck.lib.parse_cidr(n2))))
    ck.acc.exhaustive.append("every IPv4 prefix length 0..32 with addresses and sub/super/sibling networks at the edges")
    for bad in ["", "300.1.1.1", "1.2.3", "a.b.c.d", "1.2.3.4/33", "1.2.3.4/-1"]:
        k += 1
        if ctx.mine(k):
            ck.both("size_parse_cidr", "not-a-network", [bad], None, "size_parse_cidr(a0)", lambda: (lambda v: None if v is None else int(v))(ck.lib.size_parse_cidr(ck.cel(bad))))


def version_cases(ck, rnd, n):
    for _ in range(n):
        mkv = lambda: ".".join(str(rnd.choice([0, 1, 2, 9, 10, 11, 100])) for _ in range(rnd.randint(1, 4)))
        a, b = mkv(), mkv()
        r = rnd.random()
        if r < 0.2:
            b = a
        elif r < 0.35:
            b = a + ".0"
        elif r < 0.5:
            b = a + ".1"
        ta, tb = ver_tuple(a), ver_tuple(b)
        kind = "equal" if ta == tb else ("lt" if ta < tb else "gt")
        ck.both("version<", kind, [a, b], ta < tb, "version(a0) < version(a1)", lambda: bool(ck.lib.version(a) < ck.lib.version(b)))
        ck.both("version>", kind, [a, b], ta > tb, "version(a0) > version(a1)", lambda: bool(ck.lib.version(a) > ck.lib.version(b)))


def tag_cases(ck, rnd, n):
    keys = ["Name", "env", "owner", "name", "Env"]
    for _ in range(n):
        tags = [{"Key": rnd.choice(keys), "Value": rnd.choice(["v1", "v2", "", "x:y", "prod"])} for _ in range(rnd.choice([0, 1, 2, 3, 5, 8, 16, 17, 33, 70]))]
        k = rnd.choice(keys + ["absent"])
        exp = None
        for t in tags:
            if t["Key"] == k:
                exp = t["Value"]
                break
        cnt = sum(1 for t in tags if t["Key"] == k)
        kind = ("missing" if cnt == 0 else ("repeated" if cnt > 1 else "single")) + ("-long-list" if len(tags) > 10 else "")
        ck.both("key", kind, [tags, k], exp, "a0.key(a1)", lambda: (lambda v: None if v is None else str(v))(ck.lib.key(ck.cel(tags), ck.cel(k))))
    for _ in range(n):
        y, mo, d = rnd.randint(1990, 2090), rnd.randint(1, 12), rnd.randint(1, 28)
        date = f"{y:04d}-{mo:02d}-{d:02d}"
        msg = rnd.choice(["maid_status", "Resource does not meet policy", "a:b", "note: see ticket: 12", "", "x"])
        action = rnd.choice(["stop", "terminate", "notify", "delete"])
        shape = rnd.random()
        if shape < 0.7:
            val = f"{msg}:{action}@{date}"
            exp = {"message": msg, "action": action, "action_date": ("ts", civil.days_from_civil(y, mo, d) * 86400 * 10**6)}
            kind = "well-formed" + ("-colon-in-message" if ":" in msg else "")
        elif shape < 0.85:
            val = f"{msg.replace(':', '')}{action}{date}".replace("@", "")
            exp = None
            kind = "no-separators"
        else:
            val = f"{msg}:{action}-{date}"
            exp = None
            kind = "no-at-sign"
        tags = [{"Key": "other", "Value": "zzz"}, {"Key": "maid_status", "Value": val}, {"Key": "maid_status", "Value": "later:stop@2000-01-01"}]
        target = rnd.choice(["maid_status", "maid_status", "absent_tag"])
        if target == "absent_tag":
            exp, kind = None, "missing-tag"
        ck.both("marked_key", kind, [tags, target], exp, "a0.marked_key(a1)", lambda: plain(core.canon(ck.lib.marked_key(ck.cel(tags), ck.cel(target)))))


def arn_cases(ck, rnd, n):
    for _ in range(n):
        part = rnd.choice(["aws", "aws-cn", "aws-us-gov"])
        svc = rnd.choice(["s3", "ec2", "iam", "sns", "lambda"])
        region = rnd.choice(["", "us-east-1", "eu-west-2"])
        acct = rnd.choice(["", "123456789012", "000000000000"])
        shape = rnd.choice(["id", "type/id", "type:id"])
        rtype, rid = rnd.choice(["instance", "role", "function", "bucket"]), rnd.choice(["i-0abc", "my_role", "f", "b/with/slashes", "x-1"])
        if shape == "id":
            arn = f"arn:{part}:{svc}:{region}:{acct}:{rid}"
            fields = {"partition": part, "service": svc, "region": region, "account-id": acct, "resource-id": rid}
        elif shape == "type/id":
            arn = f"arn:{part}:{svc}:{region}:{acct}:{rtype}/{rid}"
            fields = {"partition": part, "service": svc, "region": region, "account-id": acct, "resource-id": f"{rtype}/{rid}"}
        else:
            arn = f"arn:{part}:{svc}:{region}:{acct}:{rtype}:{rid}"
            fields = {"partition": part, "service": svc, "region": region, "account-id": acct, "resource-type": rtype, "resource-id": rid}
        f = rnd.choice(sorted(fields))
        ck.both("arn_split", shape + ":" + f, [arn, f], fields[f], "arn_split(a0, a1)", lambda: str(ck.lib.arn_split(ck.cel(arn), ck.cel(f))))


# ---------------------------------------------------------------- filter context
def context_histories(ck, rnd, n):
    acc = ck.acc
    c = core.celpy()
    lib = ck.lib
    seen = {"during": None}

    def probe():
        acc.hook("probe-saw-context")
        cur = lib.C7N
        seen["during"] = None if cur is None else cur.filter
        return ck.ct.StringType("none" if cur is None else str(cur.filter))

    def boom_value():
        probe()
        raise ValueError("host value error")

    def boom_runtime():
        probe()
        raise RuntimeError("host runtime error")

    class Abort(BaseException):
        pass

    class Unprintable(Exception):
        def __str__(self):
            raise RuntimeError("no text")

    def boom_noargs():
        # exceptions that carry no arguments, non-text arguments, or cannot be rendered
        probe()
        raise rnd.choice([KeyError(), NotImplementedError(), LookupError(), AssertionError(), StopIteration(), RuntimeError(b"\xff", 3), Unprintable(), Unprintable(None)])

    def boom_base():
        probe()
        raise Abort()

    functions = dict(lib.FUNCTIONS)
    functions.update({"probe": probe, "boom_value": boom_value, "boom_runtime": boom_runtime, "boom_noargs": boom_noargs, "boom_base": boom_base})
    sources = {
        "success": "probe() + ':' + normalize(' A ')",
        "cel-error": "probe() + string(1 / x)",
        "host-value-error": "boom_value()",
        "host-runtime-error": "boom_runtime()",
        "host-error-without-arguments": "boom_noargs()",
        "host-base-exception": "boom_base()",
        "helper-uses-nothing": "intersect([1], [1]) && probe() != ''",
    }
    for h in range(n):
        env = c.Environment(annotations=dict(lib.DECLARATIONS), runner_class=lib.C7N_Interpreted_Runner)
        progs = {k: env.program(env.compile(s), functions=functions) for k, s in sources.items()}
        length = rnd.randint(1, 30)
        acc.hook("context-history")
        history = []
        if lib.C7N is not None:
            acc.violation("context set-before-history", "c7nlib.C7N is set before any evaluation of this history", {"fn": "context", "args": [], "kind": "history"})
        for step in range(length):
            kind = rnd.choice(list(sources))
            filt = f"filter-{h}-{step}"
            seen["during"] = "<probe not called>"
            outcome = "?"
            try:
                v = progs[kind].evaluate({"x": ck.ct.IntType(0)}, filter=filt)
                outcome = "value"
            except c.CELEvalError:
                outcome = "CELEvalError"
            except RuntimeError:
                outcome = "RuntimeError"
            except Exception as ex:
                outcome = type(ex).__name__
            except Abort:
                outcome = "BaseException"
            acc.evaluations += 1
            history.append((kind, outcome))
            after = lib.C7N
            acc.cell("context", kind, outcome, "cleared" if after is None else "still-set")
            acc.nt(["ctx", h, step])
            if seen["during"] != filt:
                acc.violation(f"context not-visible-during {kind} saw={'previous-filter' if str(seen['during']).startswith('filter-') else str(seen['during'])[:20]}", f"history {history[-4:]}: during step {step} ({kind}) the helper saw filter {seen['during']!r}, expected {filt!r}", {"fn": "context", "args": [kind], "kind": "history"})
            if step % 5 == 4:
                # the runner's filter= argument inside an enclosing context of ANOTHER filter: the evaluation sees its own filter
                outer = f"outer-{h}-{step}"
                inner = f"inner-{h}-{step}"
                seen["during"] = "<probe not called>"
                try:
                    with lib.C7NContext(filter=outer):
                        progs["success"].evaluate({"x": ck.ct.IntType(1)}, filter=inner)
                except Exception:
                    pass
                acc.hook("nested-context")
                acc.evaluations += 1
                acc.cell("context", "nested", "saw-own" if seen["during"] == inner else "saw-other")
                if seen["during"] != inner:
                    acc.violation(f"context not-visible-during nested-in-another-context saw={'enclosing-filter' if seen['during'] == outer else str(seen['during'])[:20]}", f"evaluate(..., filter={inner!r}) inside `with C7NContext(filter={outer!r})`: the helper saw filter {seen['during']!r}", {"fn": "context", "args": ["nested"], "kind": "history"})
                after = lib.C7N
                if after is not None:
                    acc.violation("context still-set-after nested-in-another-context outcome=value", f"after leaving both contexts c7nlib.C7N is still {after!r:.60}", {"fn": "context", "args": ["nested"], "kind": "history"})
                    lib.C7N = None
                after = None
            if after is not None:
                acc.violation(f"context still-set-after {kind} outcome={outcome}", f"history {history[-4:]}: after step {step} ({kind} -> {outcome}) c7nlib.C7N is still {after!r:.60}", {"fn": "context", "args": [kind], "kind": "history"})
                lib.C7N = None  # restore so that the rest of the history is judged on its own


def install_counters(acc):
    import celpy.c7nlib as lib

    def obs(module, name, args, kwargs, res, exc):
        acc.hook("celpy.c7nlib." + name)

    for name in ("intersect", "difference", "unique_size", "normalize", "glob", "parse_cidr", "size_parse_cidr", "version", "key", "marked_key", "arn_split"):
        hooks.wrap_function(lib, name, obs, tables=[lib.FUNCTIONS])


def run(ctx):
    acc = ctx.acc
    rnd = ctx.rnd
    core.celpy()
    install_counters(acc)
    ck = Ck(acc)
    cidr_cases(ck, rnd, ctx)
    set_cases(ck, rnd, ctx.scale(6000, 120000))
    normalize_cases(ck, rnd, ctx.scale(800, 30000))
    glob_cases(ck, rnd, ctx.scale(8000, 160000))
    version_cases(ck, rnd, ctx.scale(4000, 80000))
    tag_cases(ck, rnd, ctx.scale(3000, 60000))
    arn_cases(ck, rnd, ctx.scale(3000, 60000))
    context_histories(ck, rnd, ctx.scale(800, 16000))
    acc.sample({"helper": "parse_cidr.contains", "args": ["10.0.0.0/8", "10.255.255.255"], "expected": True})
    acc.sample({"helper": "glob", "args": ["abc", "a[!a]*"], "expected": True})
    acc.sample({"context_history": ["success", "host-runtime-error", "cel-error"], "expected": "C7N is None after every step"})
    hooks.remove_all()


SRC = {
    "intersect": "intersect(a0, a1)", "difference": "a0.difference(a1)", "unique_size": "unique_size(a0)", "normalize": "normalize(a0)", "glob": "a0.glob(a1)",
    "size_parse_cidr": "size_parse_cidr(a0)", "parse_cidr.contains": "parse_cidr(a0).contains(parse_cidr(a1))", "version<": "version(a0) < version(a1)",
    "version>": "version(a0) > version(a1)", "key": "a0.key(a1)", "marked_key": "a0.marked_key(a1)", "arn_split": "arn_split(a0, a1)",
}


def replay(case):
    """Re-evaluate the recorded helper call through CEL under both runners and print what comes back."""
    core.celpy()
    if case.get("fn") == "context":
        acc = core.Acc()
        import random

        context_histories(Ck(acc), random.Random(0), 50)
        return not acc.violations, "\n".join(v["what"] for v in acc.violations) or "context protocol held on 50 fresh histories"
    ck = Ck(core.Acc())
    src = SRC[case["fn"]]
    binds = {f"a{i}": ck.cel(a) for i, a in enumerate(case["args"])}
    lines = []
    for r in "IC":
        lines.append(f"{src} with {case['args']!r:.120} [{r}] -> {core.api_eval(r, src, binds, functions=ck.lib.FUNCTIONS)}")
    return False, "\n".join(lines) + "\n(compare with the expectation recorded in the replay file's 'what')"
