"""C13  Results carry their CEL type: type() and API values agree with the language."""

from __future__ import annotations

from .. import core, diag, hooks, lang, mv as MV, tgen
from ..lang import Node

ID = "C13"
READY = True
LEVEL = "exploration"
WORKERS = {"quick": 8, "thorough": 16}
BUDGET = {"quick": 150, "thorough": 420}
MIN_NONTRIVIAL = {"quick": 1500, "thorough": 25000}
REQUIRED_HOOKS = ["accessor-form", "retyped-reuse", "absorbed-error-form", "long-container-form", "evaluate:I", "evaluate:C", "isinstance", "type-eq", "dunder-result-class"]
RULE = (
    "Well-typed expressions from the type-directed generator (every operator, function, macro, conversion and accessor at the root and nested, static type known) "
    "are evaluated under both runners and observed two ways: (1) the class of the value handed back to the caller must be the library class for the static "
    "CEL type (containers: recursively for every element); (2) `type(e) == T` must be true for the matching name among the 12 type names and false for the other 11. "
    "Recording wrappers on the arithmetic/concatenation dunders of the celtypes classes check type(result) against type(self) for every operator call the engines make. "
    "distinct_nontrivial = distinct (expression, bindings) whose root is an operator, function, macro, conversion or accessor (not a bare literal or variable)."
)
ASSUMPTIONS = [
    "only cases whose reference outcome is a value are judged (errors are other properties' business)",
    "static types come from the generator; the reference model only decides value-vs-error",
]

TYPE_NAMES = ["int", "uint", "double", "bool", "string", "bytes", "list", "map", "null_type", "timestamp", "duration", "type"]


def class_errors(canon, t, path="result"):
    """Compare canon class names with the static type; returns list of (path, observed-class, expected-class)."""
    if isinstance(t, tuple):
        exp_cls = "ListType" if t[0] == "list" else "MapType"
    elif t == "type":
        return [] if canon[0] == "<type>" else [(path, canon[0], "<type>")]
    else:
        exp_cls = MV.CLASS_OF[t]
    errs = []
    if canon[0] != exp_cls:
        errs.append((path, canon[0], exp_cls))
    if isinstance(t, tuple) and isinstance(canon[1], list):
        if t[0] == "list":
            for x in canon[1][:6]:
                errs += class_errors(x, t[1], path + "[]")
        else:
            for kv in canon[1][:6]:
                errs += class_errors(kv[0], t[1], path + ".key")
                errs += class_errors(kv[1], t[2], path + ".value")
    return errs


def is_value(node, env):
    try:
        lang.Model(env).ev(node)
        return True
    except (lang.ModelErr, lang.Unspec):
        return False


def static_class(t):
    return lang.type_name(t)


def check(acc, node, env, origin):
    try:
        src = lang.to_text(node)
    except ValueError:
        return
    if not is_value(node, env):
        acc.hook("skipped-not-a-value")
        return
    benv = MV.cel_env(env)
    t = node.t
    if node.k not in ("lit", "var"):
        acc.nt([src, MV.enc_env(env)])
    for r in "IC":
        # (1) class of the returned value
        out = core.api_eval(r, src, benv)
        acc.hook("evaluate:" + r)
        acc.hook("isinstance")
        acc.evaluations += 1
        root = diag.head(node)
        if out[0] != "V":
            acc.cell(origin, r, "api", root, static_class(t), "not-a-value")
            continue  # value-vs-error disagreements belong to C01/C09/C03...
        errs = class_errors(out[1], t)
        acc.cell(origin, r, "api", root, static_class(t), "ok" if not errs else "wrong-class")
        if errs:
            def bad(x, extra, r=r):
                env2 = dict(env, **extra) if extra else env
                if not is_value(x, env2):
                    return False
                o = core.api_eval(r, lang.to_text(x), dict(benv, **MV.cel_env(extra)) if extra else benv)
                return o[0] == "V" and bool(class_errors(o[1], x.t))

            def elements(recv, extra):
                try:
                    v = lang.Model(dict(env, **extra) if extra else env).ev(recv)
                except (lang.ModelErr, lang.Unspec):
                    return None
                return list(v[1])[:2] if v[0] == "list" else ([kv[0] for kv in v[1]][:2] if v[0] == "map" else None)

            m, ex_b = diag.localize_scoped(node, bad, elements)
            mo = core.api_eval(r, lang.to_text(m), dict(benv, **MV.cel_env(ex_b)) if ex_b else benv)
            me = class_errors(mo[1], m.t) if mo[0] == "V" else []
            if not me:
                m, me = node, errs
            p, oc, ec = me[0]
            slug = f"{r} api {diag.shape(m, lambda x: static_class(x.t))} {p.replace('result', 'result')} is {oc} not {ec}"
            acc.violation(
                slug,
                f"{'interpreted' if r == 'I' else 'compiled'}: {src[:120]!r} returned {oc} at {p}, static type {static_class(t)} requires {ec}; minimal sub-expression {lang.to_text(m)[:80]!r}",
                {"src": src, "bindings": MV.enc_env(env), "runner": r, "mode": "api", "type": core.jkey(t)},
            )
        # (2) type(e) == T inside CEL
        want = static_class(t)
        names = [want] + [n for n in TYPE_NAMES if n != want][: 11 if acc.evaluations % 5 == 0 else 2]
        tsrc = "[" + ", ".join(f"type({src}) == {n}" for n in names) + "]"
        o2 = core.api_eval(r, tsrc, benv)
        acc.hook("type-eq")
        acc.evaluations += 1
        exp_list = [True] + [False] * (len(names) - 1)
        got = [x[1] for x in o2[1][1]] if o2[0] == "V" and o2[1][0] in ("ListType", "list") else None
        acc.cell(origin, r, "type()", root, want, "ok" if got == exp_list else "wrong")
        if got != exp_list:
            def bad2(x, extra, r=r):
                env2 = dict(env, **extra) if extra else env
                if not is_value(x, env2):
                    return False
                o = core.api_eval(r, f"type({lang.to_text(x)}) == {static_class(x.t)}", dict(benv, **MV.cel_env(extra)) if extra else benv)
                return not (o[0] == "V" and o[1][1] is True)

            def elements2(recv, extra):
                try:
                    v = lang.Model(dict(env, **extra) if extra else env).ev(recv)
                except (lang.ModelErr, lang.Unspec):
                    return None
                return list(v[1])[:2] if v[0] == "list" else ([kv[0] for kv in v[1]][:2] if v[0] == "map" else None)

            m, ex_b = diag.localize_scoped(node, bad2, elements2)
            if not bad2(m, ex_b):
                m = node
            which = "matching-name-false" if got and not got[0] else ("other-name-true" if got else diag.oclass(o2).split("@")[0])
            slug = f"{r} type() {diag.shape(m, lambda x: static_class(x.t))} {which}"
            acc.violation(
                slug,
                f"{'interpreted' if r == 'I' else 'compiled'}: type({src[:100]}) == {want} -> {got if got else core.jkey(o2)[:80]}; minimal sub-expression {lang.to_text(m)[:80]!r}",
                {"src": src, "bindings": MV.enc_env(env), "runner": r, "mode": "type", "type": core.jkey(t)},
            )


class DunderMonitor:
    """type(x op y) must be type(x) for the arithmetic / concatenation operators of the celtypes classes."""

    NAMES = ["__add__", "__sub__", "__mul__", "__truediv__", "__mod__", "__neg__", "__radd__", "__rsub__", "__rmul__"]

    def __init__(self, acc):
        self.acc = acc
        ct = core.celpy().celtypes
        self.classes = [ct.IntType, ct.UintType, ct.DoubleType, ct.StringType, ct.BytesType, ct.ListType, ct.DurationType, ct.TimestampType]
        self.ct = ct

    def install(self):
        for cls in self.classes:
            for name in self.NAMES:
                hooks.wrap_method(cls, name, self.observe)

    def observe(self, cls, name, args, kwargs, res, exc):
        if exc is not None or res is NotImplemented or isinstance(res, BaseException):
            return
        a = args[0]
        if type(a) is not cls:
            return
        other = args[1] if len(args) > 1 else None
        self.acc.hook("dunder-result-class")
        exp = cls
        if cls is self.ct.TimestampType and name == "__sub__" and isinstance(other, self.ct.TimestampType):
            exp = self.ct.DurationType
        elif cls is self.ct.DurationType and isinstance(other, self.ct.TimestampType):
            exp = self.ct.TimestampType
        elif other is not None and type(other) is not cls and not (cls is self.ct.TimestampType and isinstance(other, self.ct.DurationType)):
            return
        if type(res) is not exp:
            self.acc.violation(
                f"dunder {cls.__name__}.{name} returned {type(res).__name__}",
                f"{cls.__name__}.{name}({a!r:.40}, {other!r:.40}) returned a {type(res).__name__}, expected {exp.__name__}",
                {"mode": "dunder", "cls": cls.__name__, "name": name},
            )


ROOTS = None


def root_programs(rnd):
    """One well-typed program per (production, type) with the production at the root: systematic part."""
    g = tgen.TGen(rnd, small=True, maxdepth=2)
    out = []
    for t in ["int", "uint", "double", "bool", "string", "bytes", "ts", "dur", "type", ("list", "int"), ("list", "string"), ("map", "string", "int"), ("map", "int", "bool")]:
        for p in g.productions(t):
            for _ in range(2):
                try:
                    n = p(1)
                except Exception:
                    n = None
                if n is not None:
                    out.append((n, g))
    return out


def check_src(acc, src, t, env, origin, shape):
    """Hand-written program of static type t: class of the returned value and type(e) == T."""
    benv = MV.cel_env(env)
    want = static_class(t)
    acc.nt([src, origin])
    for r in "IC":
        out = core.api_eval(r, src, benv)
        acc.hook("evaluate:" + r)
        acc.hook("isinstance")
        acc.evaluations += 1
        if out[0] != "V":
            acc.cell(origin, r, "api", shape, want, "not-a-value")
            continue
        errs = class_errors(out[1], t)
        acc.cell(origin, r, "api", shape, want, "ok" if not errs else "wrong-class")
        if errs:
            p, oc, ec = errs[0]
            acc.violation(
                f"{r} api {origin} {shape} {p} is {oc} not {ec}",
                f"{'interpreted' if r == 'I' else 'compiled'}: {src[:140]!r} returned {oc} at {p}, static type {want} requires {ec}",
                {"src": src, "bindings": MV.enc_env(env), "runner": r, "mode": "api", "type": core.jkey(t)},
            )
        o2 = core.api_eval(r, f"[type({src}) == {want}, type({src}) == {'int' if want != 'int' else 'bool'}]", benv)
        acc.hook("type-eq")
        acc.evaluations += 1
        got = [x[1] for x in o2[1][1]] if o2[0] == "V" and o2[1][0] in ("ListType", "list") else None
        acc.cell(origin, r, "type()", shape, want, "ok" if got == [True, False] else "wrong")
        if got != [True, False]:
            acc.violation(
                f"{r} type() {origin} {shape} {'matching-name-false' if got and not got[0] else 'other'}",
                f"{'interpreted' if r == 'I' else 'compiled'}: [type(e) == {want}, type(e) == another] for e = {src[:120]!r} gave {got if got is not None else core.jkey(o2)[:60]}, expected [true, false]",
                {"src": src, "bindings": MV.enc_env(env), "runner": r, "mode": "type", "type": core.jkey(t)},
            )


# results produced on the ERROR-ABSORBING paths (an element or operand fails, another one decides) and on LONG containers
ABSORBED = [
    ("[0, 1, 4].exists(x, 4 / x == 1)", "bool", "exists"), ("[0, 2].all(x, 4 / x == 1)", "bool", "all"), ("[4, 0].exists(x, 4 / x == 1)", "bool", "exists"), ("[2, 0].all(x, 4 / x == 1)", "bool", "all"),
    ("1 / 0 > 0 || true", "bool", "||"), ("true || 1 / 0 > 0", "bool", "||"), ("false && 1 / 0 > 0", "bool", "&&"), ("1 / 0 > 0 && false", "bool", "&&"), ("true ? 1 : 1 / 0", "int", "?:"),
    ("false ? 1 / 0 : 2u", "uint", "?:"), ("[1, 2].exists(x, x == 2 || [][0])", "bool", "exists"), ("[[0, 1], [2]].map(l, l.exists(x, 2 / x == 2))", ("list", "bool"), "map"),
    ("[0, 1].exists(x, 1 / x == 1) ? 'y' : 'n'", "string", "?:"), ("![0, 1].exists(x, 1 / x == 1)", "bool", "!"), ("[0, 1].exists(x, 1 / x == 1) && [0, 2].all(x, 4 / x == 1) == false", "bool", "&&"),
    ("{'a': 1}.exists(k, {'a': 1}[k] == 1 || {}[k] == 1)", "bool", "exists"), ("[1, 2, 3].exists_one(x, x == 2)", "bool", "exists_one"), ("has({'a': 1}.a) || 1 / 0 > 0", "bool", "||"),
]
LONG_FORMS = [
    ("(n - 1) in l", "bool", "in"), ("n in l", "bool", "in"), ("0 in l", "bool", "in"), ("('k' + string(n - 1)) in m", "bool", "in"), ("'nope' in m", "bool", "in"), ("l + l", ("list", "int"), "+"),
    ("size(l)", "int", "size"), ("l == l", "bool", "=="), ("l != l + [1]", "bool", "!="), ("l.map(x, x + 1)", ("list", "int"), "map"), ("l.filter(x, x >= 0)", ("list", "int"), "filter"), ("l.all(x, x >= 0)", "bool", "all"),
    ("l.exists(x, x == n - 1)", "bool", "exists"), ("l.exists_one(x, x == 0)", "bool", "exists_one"), ("s + s", "string", "+"), ("size(s)", "int", "size"), ("s.contains('ab')", "bool", "contains"),
    ("s == s + ''", "bool", "=="), ("s < s + 'a'", "bool", "<"), ("l[n - 1]", "int", "index"), ("m['k0']", "int", "index"), ("m == m", "bool", "=="), ("size(m)", "int", "size"), ("b + b", "bytes", "+"), ("size(b)", "int", "size"),
    ("l.map(x, x in l)", ("list", "bool"), "map"), ("m.all(k, k in m)", "bool", "all"), ("[n in l, 1 in l]", ("list", "bool"), "list"), ("{'in': 1 in l}", ("map", "string", "bool"), "map-literal"),
]


# every accessor of timestamps AND durations (the class of the result is asserted here whatever the number is), on literals and on results
# of arithmetic, with and without a time-zone argument
ACCESSOR_FORMS = (
    [(f"timestamp('2009-02-13T23:31:30.250Z').{a}({z})", "int", a) for a in ("getFullYear", "getMonth", "getDate", "getDayOfMonth", "getDayOfWeek", "getDayOfYear", "getHours", "getMinutes", "getSeconds", "getMilliseconds") for z in ("", "'-08:00'", "'Asia/Kolkata'")]
    + [(f"{d}.{a}()", "int", "duration." + a) for a in ("getHours", "getMinutes", "getSeconds", "getMilliseconds") for d in ("duration('1s')", "duration('3723.004s')", "duration('-90m')", "(duration('1h') + duration('1.5s'))", "(timestamp('2009-02-13T23:31:30Z') - timestamp('2009-02-13T20:00:00.5Z'))", "d")]
    + [("(t + d).getSeconds()", "int", "getSeconds"), ("(t - duration('1s')).getMilliseconds()", "int", "getMilliseconds"), ("[d].map(x, x.getMilliseconds())", ("list", "int"), "duration.getMilliseconds"), ("d.getSeconds() + d.getMilliseconds()", "int", "+")]
)
ACCESSOR_ENV = {"d": ("dur", 3723004000), "t": ("ts", 1234567890250000)}

# one program, evaluated against activations that give the SAME names values of ANOTHER type each time (a program is compiled once and used
# for whatever the host binds): the class of every result must follow the operands of THAT evaluation
RETYPE_VALUES = {
    "int": (("int", 7), ("int", 2)), "uint": (("uint", 7), ("uint", 2)), "double": (("double", 7.5), ("double", 2.0)), "string": (("string", "ab"), ("string", "c")),
    "bytes": (("bytes", b"ab"), ("bytes", b"c")), ("list", "int"): (("list", (("int", 1),)), ("list", (("int", 2), ("int", 3)))),
}
NUM3, ALL6 = ["int", "uint", "double"], ["int", "uint", "double", "string", "bytes", ("list", "int")]
RETYPE_FORMS = [
    ("x + y", ALL6, lambda t: t), ("x - y", NUM3, lambda t: t), ("x * y", NUM3, lambda t: t), ("x / y", NUM3, lambda t: t), ("x % y", ["int", "uint"], lambda t: t), ("-x", ["int", "double"], lambda t: t),
    ("x > y ? x : y", ["int", "uint", "double", "string"], lambda t: t), ("[x, y][1]", ALL6, lambda t: t), ("{'k': x}.k", ALL6, lambda t: t), ("[x].map(e, e + y)", ALL6, lambda t: ("list", t)),
    ("[x, y].filter(e, e == x)", ALL6, lambda t: ("list", t)), ("x + y + x", ALL6, lambda t: t), ("(x - y) * y + x", NUM3, lambda t: t), ("[x + y, x]", ALL6, lambda t: ("list", t)), ("x == y ? y : x + y", ALL6, lambda t: t),
]


def retyped_reuse(acc, ctx):
    c = core.celpy()
    k = 0
    for src, types, result_type in RETYPE_FORMS:
        for rot in range(len(types)):
            k += 1
            if not ctx.mine(k):
                continue
            order = types[rot:] + types[:rot]
            order = order + order[:2]  # every type is also met again after the others
            for r in "IC":
                try:
                    env = c.Environment(runner_class=core.runner_class(r))
                    prog = env.program(env.compile(src))
                except Exception:
                    continue
                for step, t in enumerate(order):
                    xv, yv = RETYPE_VALUES[t]
                    benv = {"x": xv, "y": yv}
                    acc.hook("evaluate:" + r)
                    acc.hook("retyped-reuse")
                    acc.evaluations += 1
                    try:
                        out = ["V", core.canon(prog.evaluate(MV.cel_env(benv)))]
                    except c.CELEvalError:
                        out = ["E"]
                    except Exception as ex:
                        out = ["X", type(ex).__name__]
                    want_t = result_type(t)
                    if step:
                        acc.nt([src, r, "retyped", [core.jkey(x) for x in order[: step + 1]]])
                    errs = class_errors(out[1], want_t) if out[0] == "V" else [("result", out[0] + (":" + out[1] if out[0] == "X" else ""), static_class(want_t))]
                    acc.cell("retyped-reuse", r, "step%d" % min(step, 3), static_class(want_t), "ok" if not errs else "wrong-class")
                    if errs:
                        pth, oc, ec = errs[0]
                        fresh = core.api_eval(r, src, MV.cel_env(benv))
                        fresh_ok = fresh[0] == "V" and not class_errors(fresh[1], want_t)
                        acc.violation(
                            f"{r} program-reuse operand-types-changed {'only-after-earlier-evaluations' if fresh_ok else 'also-on-a-fresh-program'} {pth} is {oc} not {ec}",
                            f"{'interpreted' if r == 'I' else 'compiled'}: evaluation #{step + 1} of one program {src!r} with {static_class(t)} operands (earlier: {[static_class(x) for x in order[:step]]}) returned {oc} at {pth}, expected {ec}",
                            {"src": src, "runner": r, "mode": "retyped", "order": [core.jkey(x) for x in order[: step + 1]]},
                        )
                        break
    acc.exhaustive.append("%d forms x every rotation of their operand types, one program per runner evaluated through the whole rotation" % len(RETYPE_FORMS))


def run(ctx):
    acc = ctx.acc
    rnd = ctx.rnd
    core.celpy()
    mon = DunderMonitor(acc)
    mon.install()
    for i, (src, t, shape) in enumerate(ACCESSOR_FORMS):
        if ctx.mine(i):
            acc.hook("accessor-form")
            check_src(acc, src, t, ACCESSOR_ENV, "accessor", shape)
    retyped_reuse(acc, ctx)
    for i, (src, t, shape) in enumerate(ABSORBED):
        if ctx.mine(i):
            acc.hook("absorbed-error-form")
            check_src(acc, src, t, {}, "absorbed-error", shape)
    i = 0
    for n in (8, 17, 31, 32, 33, 64, 65, 129, 257, 1025):
        env = {
            "l": ("list", tuple(("int", v) for v in range(n))), "n": ("int", n), "s": ("string", "ab" * (n // 2) + "c"), "b": ("bytes", b"xy" * (n // 2)),
            "m": ("map", tuple((("string", "k%d" % v), ("int", v)) for v in range(n))),
        }
        for src, t, shape in LONG_FORMS:
            i += 1
            if ctx.mine(i):
                acc.hook("long-container-form")
                check_src(acc, src, t, env, "long-container", shape)
    # systematic: every production at the root
    g0 = tgen.TGen(rnd, small=True, maxdepth=2)
    k = 0
    for t in ["int", "uint", "double", "bool", "string", "bytes", "ts", "dur", "type", "null", ("list", "int"), ("list", "string"), ("list", ("list", "int")), ("map", "string", "int"), ("map", "int", "bool"), ("map", "bool", ("list", "string"))]:
        prods = g0.productions(t)
        for pi, p in enumerate(prods):
            for rep in range(3):
                k += 1
                if not ctx.mine(k):
                    continue
                g = tgen.TGen(rnd, small=True, maxdepth=2)
                try:
                    n = g.productions(t)[pi](rnd.randint(0, 2))
                except Exception:
                    continue
                if n is not None:
                    check(acc, n, g.model_env(), "root-production")
    # literals and variables of every type
    for t in ["int", "uint", "double", "bool", "string", "bytes", "null", "ts", "dur", ("list", "int"), ("map", "string", "int")]:
        k += 1
        if ctx.mine(k):
            g = tgen.TGen(rnd, small=True)
            for _ in range(3):
                check(acc, g.leaf(t), g.model_env(), "leaf")
    n = ctx.scale(9000, 240000)
    for j in range(n):
        if ctx.expired():
            break
        g = tgen.TGen(rnd, small=rnd.random() < 0.7, maxdepth=rnd.randint(1, 4))
        t = g.rand_type() if rnd.random() < 0.8 else rnd.choice(["ts", "dur", "type", "bool"])
        node = g.gen(t)
        check(acc, node, g.model_env(), "generated")
        if j % 997 == 0:
            try:
                acc.sample({"src": lang.to_text(node), "static_type": static_class(t), "bindings": MV.enc_env(g.model_env())})
            except ValueError:
                pass
    hooks.remove_all()


def replay(case):
    core.celpy()
    if case.get("mode") == "dunder":
        return True, "dunder events are re-observed by re-running the check"
    import json

    if case.get("mode") == "retyped":
        global RETYPE_FORMS
        acc = core.Acc()

        class C:
            def mine(self, k):
                return True

        saved = RETYPE_FORMS
        RETYPE_FORMS = [f for f in saved if f[0] == case["src"]]
        try:
            retyped_reuse(acc, C())
        finally:
            RETYPE_FORMS = saved
        mine = [v for v in acc.violations if v["case"].get("runner") == case["runner"]] if acc.violations and "case" in acc.violations[0] else acc.violations
        return not mine, "\n".join(v["what"] for v in mine[:3]) or f"{case['src']!r}: every evaluation of the reused program returned the class of its operands"
    t = json.loads(case["type"])
    t = tuple(t) if isinstance(t, list) else t
    benv = MV.cel_env(MV.dec_env(case.get("bindings", {})))
    out = core.api_eval(case["runner"], case["src"], benv)
    if case["mode"] == "api":
        def tt(x):
            return tuple(tt(y) for y in x) if isinstance(x, list) else x
        errs = class_errors(out[1], tt(t)) if out[0] == "V" else []
        return not errs, f"{case['src']!r} -> {out}; class errors {errs}"
    want = lang.type_name(tuple(t) if isinstance(t, list) else t)
    o2 = core.api_eval(case["runner"], f"type({case['src']}) == {want}", benv)
    return o2[0] == "V" and o2[1][1] is True, f"type({case['src']}) == {want} -> {o2}"
