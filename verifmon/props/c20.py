"""C20  CLI output and exit status reflect the evaluation result."""

from __future__ import annotations

import contextlib
import io
import json
import os
import subprocess
import sys

from .. import core, diag, lang, mv as MV, tgen
from .c15 import same_doc

ID = "C20"
READY = True
LEVEL = "exploration"
WORKERS = {"quick": 8, "thorough": 16}
BUDGET = {"quick": 150, "thorough": 420}
MIN_NONTRIVIAL = {"quick": 1000, "thorough": 20000}
REQUIRED_HOOKS = ["main", "null-input", "boolean", "syntax-error", "stream", "subprocess"]
RULE = (
    "celpy.__main__.main(argv) is called in-process with captured stdin/stdout/stderr (and `python -m celpy` as a real subprocess for a sample: the true "
    "boundary is the process exit status). -n EXPR: expressions of the generator's bool/int/string/list fragment with --arg typed bindings; stdout must be the "
    "JSON of the reference value (type-strict) and the status 0; with -b the status must be 0/1/2 for true/false/other-or-error. Syntax errors (token-level "
    "mutations of valid sources) must exit 1 with a message carrying line:column. NDJSON: streams of 1-8 documents (including ones on which the expression errors, "
    "blank and malformed lines), with/without -b, with -d/-p and default package: stdout(stream) must equal the concatenation of stdout(doc_k alone) and "
    "status(stream) the maximum of status(doc_k alone); a malformed document alone must give 3. distinct_nontrivial = distinct (argv, stdin) cases that use -b, an --arg binding, "
    "a failing expression or a stream of >= 2 documents."
)
ASSUMPTIONS = [
    "documents stay inside int64; --arg string values contain no line breaks (argparse pattern)",
    "the non -b status of an evaluation error in -n mode is not asserted (the statement is silent)",
]


def run_main(argv, stdin_text=""):
    """In-process CLI call -> (status, stdout, stderr)."""
    import celpy.__main__ as m

    out, err = io.StringIO(), io.StringIO()
    old_in = sys.stdin
    sys.stdin = io.StringIO(stdin_text)
    status = None
    try:
        with contextlib.redirect_stdout(out), contextlib.redirect_stderr(err):
            try:
                status = m.main(list(argv))
            except SystemExit as ex:
                status = ("SystemExit", ex.code)
            except BaseException as ex:  # noqa
                status = ("raised", type(ex).__name__)
    finally:
        sys.stdin = old_in
    return status, out.getvalue(), err.getvalue()


def run_subprocess(argv, stdin_text=""):
    if any("\x00" in a for a in argv):
        return run_main(argv, stdin_text)  # a process argument cannot carry NUL
    env = dict(os.environ)
    p = subprocess.run([sys.executable, "-m", "celpy"] + list(argv), input=stdin_text, capture_output=True, text=True, env=env, timeout=120)
    return p.returncode, p.stdout, p.stderr


def mv_to_doc(v):
    tag, p = v
    if tag in ("int", "uint", "bool", "string", "double"):
        return p
    if tag == "null":
        return None
    if tag == "list":
        return [mv_to_doc(x) for x in p]
    if tag == "map":
        return {mv_to_doc(k): mv_to_doc(x) for k, x in p}
    raise ValueError(tag)


ARG_TYPE = {"int": "int", "uint": "uint", "bool": "bool", "string": "string", "double": "double"}


def arg_text(v):
    tag, p = v
    if tag == "bool":
        return "true" if p else "false"
    if tag == "double":
        return repr(p)
    return str(p)


def gen_null_input(rnd):
    """-> (argv-args, expr text, expected ('V', doc) | ('E',) | None)"""
    g = tgen.TGen(rnd, features=["arith", "containers", "strings", "macros"], small=rnd.random() < 0.7, maxdepth=rnd.randint(1, 3), errors=rnd.choice([0, 0, 0.1]))
    t = rnd.choice(["bool", "bool", "int", "string", ("list", "int"), ("list", "string"), ("list", "bool")])
    node = g.gen(t)
    env = g.model_env()
    # bindings must be expressible as --arg
    args = []
    for name, v in env.items():
        if v[0] not in ARG_TYPE:
            return None
        if v[0] == "string" and ("\n" in v[1] or "\r" in v[1] or "\x00" in v[1]):
            return None
        if v[0] == "double" and (v[1] != v[1] or v[1] in (float("inf"), float("-inf"))):
            return None
        args += ["-a", f"{name}:{ARG_TYPE[v[0]]}={arg_text(v)}"]
    try:
        src = lang.to_text(node)
        exp = ("V", mv_to_doc(lang.Model(env).ev(node)))
    except lang.ModelErr:
        exp = ("E",)
    except (lang.Unspec, ValueError):
        return None
    return args, src, exp


def check_null_input(acc, rnd, runner):
    case = gen_null_input(rnd)
    if case is None:
        return
    args, src, exp = case
    boolean = rnd.random() < 0.5
    argv = ["-n"] + (["-b"] if boolean else []) + args + [src]
    if src.startswith("-"):
        argv = ["-n"] + (["-b"] if boolean else []) + args + ["--", src]
    status, out, err = runner(argv)
    acc.hook("main")
    acc.hook("null-input")
    acc.evaluations += 1
    if boolean or args or exp[0] == "E":
        acc.nt([argv])
    mode = "-n -b" if boolean else "-n"
    problem = None
    if boolean:
        acc.hook("boolean")
        want = 2 if exp[0] == "E" else (0 if exp[1] is True else (1 if exp[1] is False else 2))
        if status != want:
            kind = "error" if exp[0] == "E" else ("true" if exp[1] is True else ("false" if exp[1] is False else "non-bool"))
            problem = (f"{mode} status result={kind} obs={status} exp={want}", f"status {status}, expected {want}")
    else:
        if exp[0] == "V":
            try:
                got = json.loads(out)
                ok = same_doc(got, exp[1]) and out.endswith("\n") and out.count("\n") == 1
            except Exception:
                got, ok = out[:60], False
            if not ok:
                problem = (f"{mode} output type={type(exp[1]).__name__} obs={'unparsable' if isinstance(got, str) and got == out[:60] else type(got).__name__}", f"stdout {out[:80]!r}, expected JSON of {exp[1]!r:.80}")
            elif status != 0:
                problem = (f"{mode} status result=value obs={status} exp=0", f"status {status}, expected 0")
    acc.cell(mode, exp[0], "ok" if not problem else "differ")
    if problem:
        acc.violation(problem[0], f"celpy {' '.join(argv)[:200]}: {problem[1]}; stderr {err[:80]!r}", {"argv": argv, "stdin": ""})


def check_syntax_error(acc, rnd, runner):
    from .c04 import mutate

    base = rnd.choice(["1 + 2", "a.b(c)", "[1, 2, 3].map(x, x * 2)", "x ? y : z", "{'a': 1}.a", "size('abc') > 2 && true", "1 +\n 2 *\n 3"])
    src = mutate(rnd, base)
    c = core.celpy()
    try:
        c.Environment().compile(src)
        return  # still valid
    except c.CELParseError:
        pass
    except Exception:
        return
    boolean = rnd.random() < 0.3
    argv = ["-n"] + (["-b"] if boolean else []) + ["--", src]
    status, out, err = runner(argv)
    acc.hook("main")
    acc.hook("syntax-error")
    acc.evaluations += 1
    acc.nt([argv])
    import re

    located = re.search(r"<input>:\d+:\d+", err) is not None
    ok = status == 1 and located and out == ""
    acc.cell("syntax-error", "ok" if ok else "differ")
    if not ok:
        what = "status" if status != 1 else ("no-location" if not located else "stdout-not-empty")
        acc.violation(f"syntax-error {what} obs-status={status} located={located}", f"celpy -n {src!r}: status {status}, stderr {err[:100]!r}, stdout {out[:40]!r}", {"argv": argv, "stdin": ""})


STREAM_EXPRS = [
    ("doc.a + 1", "doc"), ("doc.a > 1", "doc"), ("doc.name + '!'", "doc"), ("doc.items.map(x, x * 2)", "doc"), ("doc.items.size() > 1", "doc"), ("has(doc.a)", "doc"),
    ("doc.a == doc.b", "doc"), ("doc", "doc"), ("doc.a / doc.b", "doc"), ("[doc.a, doc.b]", "doc"), ("doc.items.exists(x, x > 2)", "doc"), ("doc.flag", "doc"), ("!doc.flag", "doc"),
    (".mix", None), ("doc.mix", "doc"),
    ("jq.a + 1", None), ("jq.a > 1", None), (".a > 1", None), (".a", None), (".name", None), ("jq", None), (".flag", None), (".a + .b", "pkg"), (".a > 1", "pkg"),
]


PROJECTIONS = {".mix": "mix", "doc.mix": "mix", ".a": "a", ".name": "name", ".flag": "flag", "doc.flag": "flag", "doc": None, "jq": None}


def strict_same(a, b):
    if type(a) is not type(b):
        return False
    if isinstance(a, float):
        import math

        return a == b and math.copysign(1, a) == math.copysign(1, b)
    if isinstance(a, list):
        return len(a) == len(b) and all(strict_same(x, y) for x, y in zip(a, b))
    if isinstance(a, dict):
        return list(a) == list(b) and all(strict_same(a[k], b[k]) for k in a)
    return a == b


def rand_json_doc(rnd):
    r = rnd.random()
    if r < 0.75:
        d = {}
        if rnd.random() < 0.85:
            # equal numbers in both JSON spellings (2 and 2.0) meet in one stream
            d["a"] = rnd.choice([0, 1, 2, 3, -1, 5, MV.INT_MAX, "s", None, 1.5, 2.0, 0.0, -0.0, 1.0, 3.0, 5.0, "2", True])
        if rnd.random() < 0.7:
            d["b"] = rnd.choice([0, 1, 2, 3, 2.0, 1.0])
        if rnd.random() < 0.6:
            # characters str.splitlines() treats as line ends but JSON allows unescaped inside a string
            d["name"] = rnd.choice(["x", "", "é\U0001f431", "a b", "l1\u2028l2", "p1\u2029p2", "n\u0085l", "a\u001cb", "tab\there", "q\"uote\\"])
        if rnd.random() < 0.6:
            d["items"] = [rnd.randint(0, 4) for _ in range(rnd.randint(0, 4))]
        if rnd.random() < 0.5:
            # members of several JSON kinds in one array / object, the boolean not in first place, also one level down
            d["mix"] = rnd.choice([[0, True], ["x", False, None], [1, [True, 2]], [2.0, {"k": False}], [None, True, 1], [[], True], {"n": 1, "t": True, "l": [0, False]}, [1, 1.0, True, "1"]])
        if rnd.random() < 0.6:
            d["flag"] = rnd.choice([True, False, True, False, 1, "yes"])
        return json.dumps(d, ensure_ascii=rnd.random() < 0.4)
    if r < 0.85:
        return rnd.choice(["{", "not json", "{'a': 1}", "[1, 2", "", "   ", "{\"a\": }", "nul", "{\"a\": 1}}"])
    return json.dumps(rnd.choice([1, "s", None, True, [1, 2], [], {}]))


def check_stream(acc, rnd, runner):
    expr, style = rnd.choice(STREAM_EXPRS)
    opts = []
    if style == "doc":
        opts = ["-d", "doc"]
    elif style == "pkg":
        opts = ["-p", "jq"]
    if rnd.random() < 0.5:
        opts = ["-b"] + opts
    docs = [rand_json_doc(rnd) for _ in range(rnd.randint(1, 8))]
    argv = opts + [expr]
    stream = "".join(d + "\n" for d in docs)
    status, out, err = runner(argv, stream)
    acc.hook("main")
    acc.hook("stream")
    acc.evaluations += 1
    singles = [runner(argv, d + "\n") for d in docs]
    acc.evaluations += len(docs)
    if len(docs) >= 2 or "-b" in opts:
        acc.nt([argv, stream])
    want_out = "".join(s[1] for s in singles)
    sts = [s[0] for s in singles]
    want_status = max(sts) if all(isinstance(s, int) for s in sts) else None
    malformed = [d for d in docs if not _is_json(d)]
    acc.cell("stream", "-b" if "-b" in opts else "plain", style or "default", "len%d" % len(docs), "malformed" if malformed else "wellformed", "ok" if (out == want_out and status == want_status) else "differ")
    if out != want_out:
        k = first_line_diff(out, want_out)
        acc.violation(f"stream output-differs-from-per-document-runs {'-b' if '-b' in opts else 'plain'} style={style or 'default'}", f"celpy {' '.join(argv)} on {docs}: stdout {out[:120]!r} != concatenation {want_out[:120]!r} (first difference at line {k})", {"argv": argv, "stdin": stream})
    elif want_status is not None and status != want_status:
        acc.violation(f"stream status-not-worst-per-document {'-b' if '-b' in opts else 'plain'} obs={status} exp={want_status}", f"celpy {' '.join(argv)} on {docs}: status {status}, per-document statuses {sts}", {"argv": argv, "stdin": stream})
    for d, (st, o, e) in zip(docs, singles):
        if not _is_json(d) and st != 3:
            acc.violation(f"stream malformed-document status obs={st} exp=3", f"celpy {' '.join(argv)} on malformed document {d!r}: status {st}", {"argv": argv, "stdin": d + "\n"})
        if _is_json(d) and st == 3:
            acc.violation("stream well-formed-document status obs=3", f"celpy {' '.join(argv)} on document {d!r}: status 3", {"argv": argv, "stdin": d + "\n"})
    # projections: the printed line is the JSON text of exactly that member of that document (type-strict: 2 is not 2.0, true is not 1)
    if expr in PROJECTIONS and "-b" not in opts:
        lines = out.split("\n")
        if all(_is_json(d) for d in docs) and len(lines) == len(docs) + 1:
            for k, d in enumerate(docs):
                dv = json.loads(d)
                fld = PROJECTIONS[expr]
                if fld is not None and not (isinstance(dv, dict) and fld in dv):
                    continue
                want = dv if fld is None else dv[fld]
                acc.hook("projection")
                try:
                    got = json.loads(lines[k])
                    same = strict_same(got, want)
                except Exception:
                    got, same = lines[k], False
                acc.cell("projection", expr, type(want).__name__, "ok" if same else "differ")
                if not same:
                    acc.violation(f"stream projection-line-is-not-the-member member-kind={type(want).__name__} obs-kind={type(got).__name__}", f"celpy {' '.join(argv)} on {docs}: line {k + 1} is {lines[k][:60]!r}, document {k + 1} has {want!r:.60}", {"argv": argv, "stdin": stream})
                    break
    # -b per-document meaning on a single well-formed document
    if "-b" in opts:
        for d, (st, o, e) in zip(docs, singles):
            if _is_json(d) and o.strip() in ("true", "false"):
                want = 0 if o.strip() == "true" else 1
                if st != want:
                    acc.violation(f"stream -b single-document result={o.strip()} obs={st} exp={want}", f"celpy {' '.join(argv)} on {d!r}: printed {o.strip()} but status {st}", {"argv": argv, "stdin": d + "\n"})


def check_slurp(acc, rnd, runner):
    """-s: one JSON document spread over several lines must behave like the same document on one line."""
    expr, style = rnd.choice([e for e in STREAM_EXPRS if e[1] in ("doc", None)])
    opts = ["-d", "doc"] if style == "doc" else []
    if rnd.random() < 0.5:
        opts = ["-b"] + opts
    d = rand_json_doc(rnd)
    if not _is_json(d):
        return
    pretty = json.dumps(json.loads(d), indent=rnd.choice([1, 2, 4]))
    st1, out1, _ = runner(opts + [expr], d + "\n")
    st2, out2, _ = runner(["-s"] + opts + [expr], pretty + "\n")
    acc.hook("main")
    acc.hook("stream")
    acc.evaluations += 2
    acc.nt(["slurp", opts, expr, d])
    ok = (st1, out1) == (st2, out2)
    acc.cell("slurp", "-b" if "-b" in opts else "plain", "ok" if ok else "differ")
    if not ok:
        acc.violation(f"slurp differs-from-single-line {'-b' if '-b' in opts else 'plain'} status {st2} vs {st1}", f"celpy -s {' '.join(opts)} {expr} on a multi-line document gave ({st2}, {out2[:60]!r}); the same document on one line gave ({st1}, {out1[:60]!r})", {"argv": ["-s"] + opts + [expr], "stdin": pretty + "\n"})


def _is_json(d):
    try:
        json.loads(d)
        return True
    except Exception:
        return False


def first_line_diff(a, b):
    la, lb = a.split("\n"), b.split("\n")
    for i, (x, y) in enumerate(zip(la, lb)):
        if x != y:
            return i + 1
    return min(len(la), len(lb)) + 1


# results that mix JSON kinds (a boolean after a number or a string, one level down, as a map value): expression -> the document printed
MIXED_RESULTS = [
    ("[1, 2 > 1, 'x', 1 > 2]", [1, True, "x", False]),
    ("{'a': [0, true]}", {"a": [0, True]}),
    ("[null, true]", [None, True]),
    ("[1.5, false, [true, 1]]", [1.5, False, [True, 1]]),
    ("['s', {'k': true}]", ["s", {"k": True}]),
    ("[[1, true], [false, 0]]", [[1, True], [False, 0]]),
    ("[0u, true, 1u]", [0, True, 1]),
    ("{'n': 1, 't': true, 'l': [0, false]}", {"n": 1, "t": True, "l": [0, False]}),
    ("[1, 2, 3].map(x, x == 2 ? dyn(true) : dyn(x))", [1, True, 3]),
    ("[[], true]", [[], True]),
    ("['', false]", ["", False]),
    ("[{}, true, {'a': false}]", [{}, True, {"a": False}]),
]


def check_mixed_results(acc, runner):
    for src, want in MIXED_RESULTS:
        argv = ["-n", src]
        status, out, err = runner(argv)
        acc.hook("main")
        acc.hook("null-input")
        acc.hook("mixed-kind-result")
        acc.evaluations += 1
        acc.nt([argv])
        try:
            got = json.loads(out)
            ok = same_doc(got, want) and strict_same(got, want) and status == 0
        except Exception:
            got, ok = out[:60], False
        acc.cell("-n", "mixed-kinds", "ok" if ok else "differ")
        if not ok:
            acc.violation(f"-n output mixed-kind-container status={status}", f"celpy -n {src!r}: stdout {out[:80]!r}, expected JSON of {want!r:.80}; stderr {err[:80]!r}", {"argv": argv, "stdin": ""})


def run(ctx):
    acc = ctx.acc
    rnd = ctx.rnd
    core.celpy()
    import logging

    logging.disable(logging.CRITICAL)
    check_mixed_results(acc, run_main)
    n = ctx.scale(2400, 120000)
    for j in range(n):
        if ctx.expired():
            break
        r = rnd.random()
        if r < 0.55:
            check_null_input(acc, rnd, run_main)
        elif r < 0.7:
            check_syntax_error(acc, rnd, run_main)
        elif r < 0.93:
            check_stream(acc, rnd, run_main)
        else:
            check_slurp(acc, rnd, run_main)
    # real processes: the exit status of `python -m celpy`
    m = ctx.scale(40, 1000)
    for j in range(m):
        if ctx.expired():
            break
        acc.hook("subprocess")
        r = rnd.random()
        if r < 0.5:
            check_null_input(acc, rnd, run_subprocess)
        elif r < 0.65:
            check_syntax_error(acc, rnd, run_subprocess)
        else:
            check_stream(acc, rnd, run_subprocess)
    acc.sample({"argv": ["-n", "-b", "-a", "x:int=5", "x > 3"], "expected_status": 0})
    acc.sample({"argv": ["-b", "-d", "doc", "doc.a > 1"], "stdin": "{\"a\": 1}\n{\"a\": 2}\nbad\n", "law": "stdout == concat of per-document stdout; status == max"})


def replay(case):
    core.celpy()
    st, out, err = run_main(case["argv"], case.get("stdin", ""))
    return False, f"celpy {case['argv']} <<< {case.get('stdin', '')!r}\nstatus {st}\nstdout {out!r}\nstderr {err[:300]!r}\n(compare with the expectation in the replay file's 'what')"
