"""C09  Lists, maps, strings and comprehension macros follow reference semantics."""

from __future__ import annotations

import re

from .. import core, diag, lang, mv as MV, tgen
from ..lang import Node

ID = "C09"
READY = True
LEVEL = "exploration"
WORKERS = {"quick": 8, "thorough": 16}
BUDGET = {"quick": 150, "thorough": 420}
MIN_NONTRIVIAL = {"quick": 3000, "thorough": 60000}
REQUIRED_HOOKS = ["program-reuse", "shadowing-macro-variable", "string-function-sweep", "size-probe", "macro-error-position", "evaluate:I", "evaluate:C", "index-sweep", "key-sweep", "regex", "law"]
RULE = (
    "Well-typed programs over lists and maps of int/uint/bool/string (nested to depth 2) and strings from the type-directed generator restricted to "
    "indexing, in, size, concatenation, map construction/lookup/has, contains/startsWith/endsWith, map/filter/all/exists/exists_one, with injected failing "
    "sub-expressions; plus sweeps: every index in {-2^63, -len-1, -len, -1, 0, len-1, len, len+1, 2^63-1} for list sizes 0..4, present/absent keys of each key "
    "type, duplicate keys, strings with astral characters; a regular-expression fragment (literals over a small alphabet, '.', classes, * + ?, alternation, "
    "groups, anchors; texts without newlines) compared with Python's re.search, and patterns RE2 documents as invalid must be errors; the listed laws as programs "
    "over bound variables. Outcomes are compared with the independent reference evaluator under both runners. distinct_nontrivial = distinct programs whose "
    "container has size >= 2 or whose expected outcome is an error."
)
ASSUMPTIONS = [
    "only well-typed programs (homogeneous containers, one key type per map) are asserted",
    "the regex generator emits only syntax on which RE2 and Python's re agree (no stacked quantifiers, back-references or look-arounds)",
    "result classes are C13's business; values are compared by content",
]

FEATURES = ["containers", "macros", "strings", "arith"]


def expected_of(node, env):
    try:
        return ("V", lang.Model(env).ev(node))
    except lang.ModelErr:
        return ("E",)
    except lang.Unspec as ex:
        return ("U", str(ex))


def agrees(out, exp):
    if exp[0] == "E":
        return out[0] == "E"
    return out[0] == "V" and MV.same_value_ignoring_class(out[1], MV.canon_of(exp[1]))


def mclass(node, env):
    e = expected_of(node, env)
    if e[0] != "V":
        return e[0]
    v = e[1]
    if v[0] in ("list", "map", "string", "bytes"):
        n = len(v[1])
        return f"{v[0]}{'0' if n == 0 else ('1' if n == 1 else 'N')}"
    if v[0] in ("int", "uint"):
        return v[0] + ("-" if v[1] < 0 else "")
    return v[0]


def check_program(acc, node, env, origin, cached=False):
    try:
        src = lang.to_text(node)
    except ValueError:
        return
    exp = expected_of(node, env)
    if exp[0] == "U":
        acc.hook("unspecified-by-model")
        return
    benv = MV.cel_env(env)
    nontriv = exp[0] == "E" or any(v[0] in ("list", "map") and len(v[1]) >= 2 for v in env.values()) or any(x.k in ("list", "map") and len(x.a) >= 2 for x in lang.walk(node))
    if nontriv:
        acc.nt([src, MV.enc_env(env)])
    for r in "IC":
        out = core.eval_cached(r, src, benv) if cached else core.api_eval(r, src, benv)
        acc.hook("evaluate:" + r)
        acc.evaluations += 1
        root = diag.head(node)
        acc.cell(origin, r, root, exp[0], "ok" if agrees(out, exp) else "differ")
        if agrees(out, exp):
            continue

        def o(x, extra=None):
            return core.api_eval(r, lang.to_text(x), dict(benv, **MV.cel_env(extra)) if extra else benv)

        def exp_of(x, extra=None):
            return expected_of(x, dict(env, **extra) if extra else env)

        def fails(x, extra):
            e = exp_of(x, extra)
            return e[0] != "U" and not agrees(o(x, extra), e)

        def elements(recv, extra):
            e = exp_of(recv, extra)
            if e[0] != "V" or e[1][0] not in ("list", "map"):
                return None
            return list(e[1][1])[:2] if e[1][0] == "list" else [kv[0] for kv in e[1][1]][:2]

        m, ex_b = diag.localize_scoped(node, fails, elements)
        me, mo = exp_of(m, ex_b), o(m, ex_b)
        if me[0] == "U" or agrees(mo, me):
            m, me, mo, ex_b = node, exp, out, {}
        env_m = dict(env, **ex_b)
        has_ops = [x for x in lang.walk(m) if x.k == "has"]
        prefix = "consequence-of-has-native-bool " if r == "C" and has_ops and mo[0] == "E" else ""
        slug = f"{r} {prefix}{diag.shape(m, lambda x: mclass(x, env_m)) if not prefix else diag.head(m)} obs={diag.oclass(mo).split('@')[0]} exp={'E' if me[0] == 'E' else 'V:' + me[1][0]}"
        acc.violation(
            slug,
            f"{'interpreted' if r == 'I' else 'compiled'}: {src[:140]!r} gave {core.jkey(out)[:120]}, reference says {str(exp)[:120]}; minimal sub-expression {lang.to_text(m)[:100]!r}",
            {"src": src, "bindings": MV.enc_env(env), "runner": r, "expected": "E" if exp[0] == "E" else MV.enc(exp[1])},
        )


I = lambda v: Node("lit", "int", ("int", v))


def index_sweep(acc, ctx):
    k = 0
    for n in range(0, 5):
        for et, mk in (("int", lambda i: ("int", 10 + i)), ("string", lambda i: ("string", "s%d" % i)), ("bool", lambda i: ("bool", i % 2 == 0))):
            lst = ("list", tuple(mk(i) for i in range(n)))
            for idx in sorted({-(2**63), -n - 1, -n, -1, 0, n - 1, n, n + 1, 2**63 - 1, 1, 2}):
                for idx_t in ("int", "uint"):
                    if idx_t == "uint" and idx < 0:
                        continue
                    k += 1
                    if not ctx.mine(k):
                        continue
                    acc.hook("index-sweep")
                    iv = (idx_t, idx)
                    # bound list / bound index, literal list / literal index
                    check_program(acc, Node("index", et, Node("var", ("list", et), "l"), Node("var", idx_t, "i")), {"l": lst, "i": iv}, "index-bound", cached=True)
                    check_program(acc, Node("index", et, Node("lit", None, lst), Node("lit", idx_t, iv)), {}, "index-literal")
    acc.exhaustive.append("list sizes 0..4 x index in {-2^63,-len-1,-len,-1,0,1,2,len-1,len,len+1,2^63-1} x int/uint index x 3 element types")


def computed_index_sweep(acc, ctx):
    """The index is the RESULT of an operator (every arithmetic operator and unary minus over bound ints, negative / in range / past the
    end): an index value is whatever the operators hand on, not only what literals and bindings produce."""
    k = 0
    V = lambda name: Node("var", "int", name)
    forms = [
        ("%", lambda: Node("bin", "int", "%", V("i"), V("j"))), ("-", lambda: Node("bin", "int", "-", V("i"), V("j"))), ("+", lambda: Node("bin", "int", "+", V("i"), V("j"))),
        ("*", lambda: Node("bin", "int", "*", V("i"), V("j"))), ("/", lambda: Node("bin", "int", "/", V("i"), V("j"))), ("neg", lambda: Node("un", "int", "-", V("i"))),
        ("%+0", lambda: Node("bin", "int", "+", Node("bin", "int", "%", V("i"), V("j")), Node("lit", "int", ("int", 0)))),
        ("cond", lambda: Node("cond", "int", Node("bin", "bool", "<", V("i"), V("j")), V("i"), V("j"))),
    ]
    lst = ("list", tuple(("int", 10 + i) for i in range(3)))
    for name, mk in forms:
        for i in range(-7, 8):
            for j in (-3, -1, 1, 2, 3):
                k += 1
                if not ctx.mine(k):
                    continue
                acc.hook("computed-index")
                node = Node("index", "int", Node("var", ("list", "int"), "l"), mk())
                check_program(acc, node, {"l": lst, "i": ("int", i), "j": ("int", j)}, "index-computed", cached=True)
    acc.exhaustive.append("index computed by each of % - + * / unary-minus ?: over i in -7..7, j in {-3,-1,1,2,3}, list of 3")


def key_sweep(acc, ctx):
    k = 0
    pools = {
        "int": [("int", v) for v in (-1, 0, 1, 2, MV.INT_MAX, MV.INT_MIN)],
        "uint": [("uint", v) for v in (0, 1, 2, MV.UINT_MAX)],
        "bool": [("bool", False), ("bool", True)],
        "string": [("string", s) for s in ("", "a", "b", "ab", "\U0001f431", "A")],
    }
    for kt, pool in pools.items():
        for size in range(0, 4):
            keys = pool[:size]
            m = ("map", tuple((kk, ("int", 100 + j)) for j, kk in enumerate(keys)))
            for probe in pool:
                k += 1
                if not ctx.mine(k):
                    continue
                acc.hook("key-sweep")
                env = {"m": m, "k": probe}
                mt = ("map", kt, "int")
                check_program(acc, Node("index", "int", Node("var", mt, "m"), Node("var", kt, "k")), env, "key-bound", cached=True)
                check_program(acc, Node("bin", "bool", "in", Node("var", kt, "k"), Node("var", mt, "m")), env, "in-map-bound", cached=True)
                check_program(acc, Node("index", "int", Node("lit", None, m), Node("lit", kt, probe)), {}, "key-literal")
                if kt == "string" and re.fullmatch(r"[A-Za-z_]\w*", probe[1]):
                    check_program(acc, Node("field", "int", Node("lit", None, m), probe[1]), {}, "field-literal")
                    check_program(acc, Node("has", "bool", Node("lit", None, m), probe[1]), {}, "has-literal")
                    check_program(acc, Node("has", "bool", Node("var", mt, "m"), probe[1]), {"m": m}, "has-bound", cached=True)
            # duplicate keys
            if keys:
                k += 1
                if ctx.mine(k):
                    dup = Node("map", ("map", kt, "int"), *[(Node("lit", kt, kk), I(j)) for j, kk in enumerate(keys + [keys[0]])])
                    check_program(acc, dup, {}, "duplicate-key")
                    check_program(acc, Node("call", "int", "size", dup), {}, "duplicate-key")
    acc.exhaustive.append("map sizes 0..3 x every probe key of the pool, per key type; duplicate keys")


# ---------------------------------------------------------------- regular expressions
def gen_regex(rnd, depth=0):
    r = rnd.random()
    if depth > 2 or r < 0.35:
        atom = rnd.choice(["a", "b", "c", "ab", ".", "[ab]", "[^a]", "[a-c]", "\\.", "x"])
    elif r < 0.55:
        atom = "(" + gen_regex(rnd, depth + 1) + ")"
    elif r < 0.75:
        return gen_regex(rnd, depth + 1) + "|" + gen_regex(rnd, depth + 1)
    else:
        return gen_regex(rnd, depth + 1) + gen_regex(rnd, depth + 1)
    q = rnd.choice(["", "", "*", "+", "?"])
    return atom + q


LINE_SUBJECTS = ["a\nc", "\n", "a\n", "\na", "ab\ncd", "a\r\nc", "a\rc", "a\tc", "a\u2028c", "a\x0bc", "abc", "", "key=1\nvalue=2", "\n\n"]
LINE_PATTERNS = [
    "a.c", "^.$", ".", ".*", "^.*$", "a.*c", "a.?c", ".+", "^.+$", "a.{1}c", "[^a]", "a[^b]c", "a\nc", "a\\nc", "(?s)a.c", "(?s)^.$", "^a$", "a$", "^c", "c$", "(?m)^c", "key=.*value", "^$", "a.", ".c", "(?i)A.C", "\\n",
]
INVALID_RE = ["(", ")", "[a", "*a", "a{2,1}", "(a", "a)", "+", "?", "[", "(?P<n", "a**b(", "\\"]


def regex_checks(acc, ctx, n):
    rnd = ctx.rnd
    for j in range(n):
        pat = gen_regex(rnd)
        if rnd.random() < 0.3:
            pat = rnd.choice(["^", ""]) + pat + rnd.choice(["$", ""])
        text = "".join(rnd.choice("abcx." if j % 4 else "abcx.\n\n") for _ in range(rnd.randint(0, 6)))
        acc.hook("regex")
        env = {"s": ("string", text), "p": ("string", pat)}
        node = Node("meth", "bool", "matches", Node("var", "string", "s"), Node("var", "string", "p"))
        check_program(acc, node, env, "matches-bound", cached=True)
        if j % 3 == 0:
            check_program(acc, Node("meth", "bool", "matches", Node("lit", "string", env["s"]), Node("lit", "string", env["p"])), {}, "matches-literal")
    # line feeds and other separators in the subject against `.`, anchors, negated classes and inline flags (deterministic)
    j = 0
    for text in LINE_SUBJECTS:
        for pat in LINE_PATTERNS:
            j += 1
            if not ctx.mine(j):
                continue
            acc.hook("regex")
            acc.hook("regex-line-feed")
            env = {"s": ("string", text), "p": ("string", pat)}
            check_program(acc, Node("meth", "bool", "matches", Node("var", "string", "s"), Node("var", "string", "p")), env, "matches-lines", cached=True)
            if j % 2:
                check_program(acc, Node("call", "bool", "matches", Node("lit", "string", env["s"]), Node("lit", "string", env["p"])), {}, "matches-lines")
    for j, pat in enumerate(INVALID_RE):
        if not ctx.mine(j):
            continue
        acc.hook("regex")
        env = {"s": ("string", "abc"), "p": ("string", pat)}
        check_program(acc, Node("meth", "bool", "matches", Node("var", "string", "s"), Node("var", "string", "p")), env, "matches-invalid", cached=True)
        check_program(acc, Node("call", "bool", "matches", Node("lit", "string", env["s"]), Node("lit", "string", env["p"])), {}, "matches-invalid")


# ---------------------------------------------------------------- laws
LAWS = [
    ("size(l.map(x, x + 1)) == size(l)", {"l": ("list", "int")}),
    ("l.map(x, x * 2).map(y, y / 2) == l", {"l": ("list", "smallint")}),
    ("l.filter(x, x > 0).all(y, y > 0)", {"l": ("list", "int")}),
    ("size(l.filter(x, x > 0)) + size(l.filter(x, !(x > 0))) == size(l)", {"l": ("list", "int")}),
    ("l.filter(x, true) == l", {"l": ("list", "int")}),
    ("l.filter(x, false) == []", {"l": ("list", "int")}),
    ("l.exists_one(x, x == v) == (size(l.filter(x, x == v)) == 1)", {"l": ("list", "smallint"), "v": "smallint"}),
    ("(v in l) == l.exists(y, y == v)", {"l": ("list", "smallint"), "v": "smallint"}),
    ("(v in l) == !l.all(y, y != v)", {"l": ("list", "smallint"), "v": "smallint"}),
    ("(w in ls) == ls.exists(y, y == w)", {"ls": ("list", "string"), "w": "string"}),
    ("(s + t).startsWith(s)", {"s": "string", "t": "string"}),
    ("(s + t).endsWith(t)", {"s": "string", "t": "string"}),
    ("(s + t).contains(s) && (s + t).contains(t)", {"s": "string", "t": "string"}),
    ("size(s + t) == size(s) + size(t)", {"s": "string", "t": "string"}),
    ("size(l + l2) == size(l) + size(l2)", {"l": ("list", "int"), "l2": ("list", "int")}),
    ("(l + l2).filter(x, true) == l + l2", {"l": ("list", "int"), "l2": ("list", "int")}),
    ("m.all(k, k in m)", {"m": ("map", "string", "int")}),
    ("size(m.map(k, k)) == size(m)", {"m": ("map", "int", "int")}),
    ("m.map(k, m[k]).all(v, v in m.map(k2, m[k2]))", {"m": ("map", "int", "int")}),
]


def law_value(rnd, t):
    if t == "smallint":
        return ("int", rnd.randint(-2, 3))
    if t == "string":
        return ("string", "".join(rnd.choice(["a", "b", "\U0001f431", "é"]) for _ in range(rnd.randint(0, 4))))
    if isinstance(t, tuple) and t[0] == "list":
        return ("list", tuple(law_value(rnd, t[1]) for _ in range(rnd.choice([0, 1, 2, 3, 5]))))
    if isinstance(t, tuple) and t[0] == "map":
        items, seen = [], set()
        for _ in range(rnd.choice([0, 1, 2, 4])):
            kk = law_value(rnd, t[1]) if t[1] != "int" else ("int", rnd.randint(-3, 3))
            if kk in seen:
                continue
            seen.add(kk)
            items.append((kk, law_value(rnd, t[2])))
        return ("map", tuple(items))
    if t == "int":
        return ("int", rnd.choice([rnd.randint(-5, 5), MV.rand_int(rnd)]))
    return MV.rand_value(rnd, t)


def law_checks(acc, ctx, n):
    rnd = ctx.rnd
    for j in range(n):
        src, sig = LAWS[j % len(LAWS)]
        env = {k: law_value(rnd, t) for k, t in sig.items()}
        benv = MV.cel_env(env)
        acc.hook("law")
        for r in "IC":
            out = core.eval_cached(r, src, benv)
            acc.evaluations += 1
            acc.hook("evaluate:" + r)
            ok = out[0] == "V" and out[1][0] in ("BoolType", "bool") and out[1][1] is True
            # overflow inside a law's own arithmetic is a legitimate error, not a broken law
            if not ok and out[0] == "E" and ("x + 1" in src or "x * 2" in src) and any(abs(x[1]) > 2**61 for v in env.values() if v[0] == "list" for x in v[1] if x[0] == "int"):
                continue
            acc.cell("law", r, j % len(LAWS), "ok" if ok else "broken")
            if any(v[0] in ("list", "map") and len(v[1]) >= 2 for v in env.values()):
                acc.nt([src, MV.enc_env(env)])
            if not ok:
                acc.violation(
                    f"{r} law#{j % len(LAWS)} obs={diag.oclass(out).split('@')[0]}",
                    f"{'interpreted' if r == 'I' else 'compiled'}: law {src!r} gave {core.jkey(out)[:80]} with {str(env)[:160]}",
                    {"src": src, "bindings": MV.enc_env(env), "runner": r, "expected": MV.enc(("bool", True))},
                )


def check_reuse(acc, node, envs, origin):
    """One program object per runner evaluated against several activations (same names and types, other values):
    every evaluation must give what the reference evaluator gives for *that* activation."""
    c = core.celpy()
    try:
        src = lang.to_text(node)
    except ValueError:
        return
    exps = [expected_of(node, e) for e in envs]
    if any(e[0] == "U" for e in exps):
        return
    for r in "IC":
        try:
            env = c.Environment(runner_class=core.runner_class(r))
            prog = env.program(env.compile(src))
        except Exception:
            return  # construction problems are the business of check_program
        for step, (e, exp) in enumerate(zip(envs, exps)):
            try:
                out = ["V", core.canon(prog.evaluate(MV.cel_env(e)))]
            except c.CELEvalError:
                out = ["E"]
            except Exception as ex:
                out = ["X", "evaluate", type(ex).__name__, core._left_from(ex), core._msg(ex)]
            acc.hook("evaluate:" + r)
            acc.hook("program-reuse")
            acc.evaluations += 1
            ok = agrees(out, exp)
            acc.cell("reuse:" + origin, r, "step%d" % min(step, 3), exp[0], "ok" if ok else "differ")
            if step:
                acc.nt([src, "reuse", step, MV.enc_env(e)])
            if ok:
                continue
            fresh = core.api_eval(r, src, MV.cel_env(e))
            if not agrees(fresh, exp):
                break  # wrong in a fresh program too: check_program reports and localises it
            macros = sorted({x.a[0] for x in lang.walk(node) if x.k == "macro"})
            acc.violation(
                f"{r} program-reuse outcome-depends-on-an-earlier-evaluation root={diag.head(node)} macros={'+'.join(macros) or '-'} obs={diag.oclass(out).split('@')[0]} exp={'E' if exp[0] == 'E' else 'V:' + exp[1][0]}",
                f"{'interpreted' if r == 'I' else 'compiled'}: evaluation #{step + 1} of one program {src[:120]!r} with {str(e)[:120]} gave {core.jkey(out)[:80]}, expected {str(exp)[:80]} (a fresh program agrees with the expectation)",
                {"kind": "reuse", "src": src, "sequence": [MV.enc_env(x) for x in envs[: step + 1]], "runner": r, "bindings": MV.enc_env(e)},
            )
            break


# hand-written programs for the reuse phase: macro ranges, operands and receivers that are COMPUTED from the bindings (concatenation,
# indexing, field selection, conditionals, nested macros whose inner range depends on the outer variable)
REUSE_TEXTS = [
    "(l + [0]).map(x, x * 2)", "(l + l).filter(x, x > n)", "l[0] + size(l.filter(x, x > n))", "[[1], [2], [3]].map(x, [x[0] + n].map(y, y * 2))", "(n > 1 ? l : [n]).exists_one(x, x == n)",
    "m.k.all(x, x in l)", "(s + 'x').size() + l.map(x, x + n)[0]", "[l[0], n].exists(x, x > 1)", "l.map(x, l.filter(y, y >= x).size())", "[n, n + 1].map(x, x * n)", "(l + [n]).exists_one(x, x == n)",
    "n in (l + [7])", "(s + s).contains(s) && (s + 'b').startsWith(s)", "{'a': n, 'b': l}.b.map(x, x + n)", "m.k.map(x, x + n).filter(y, y in l)", "[s, s + 'a'].filter(x, x.endsWith('a'))",
    "l.exists_one(x, x == n) == (size(l.filter(x, x == n)) == 1)", "(l + [n])[size(l)] == n", "[m.k, l].map(x, size(x))", "size(l) > 0 ? l[size(l) - 1] : n",
    # constructs made of literals only, some of them FAILING (duplicate key, index past the end, missing key): the same program must give
    # the same outcome at every evaluation, and at every visit within one evaluation (macro bodies)
    "{'k': 1, 'k': 2}", "size({1: 'x', 2: 'y', 1: 'z'})", "{'k': 1, 'k': 2}.k == 1", "[1, 2, 3][5]", "{'a': 1}.b", "{'a': [1, 2]}.a[2]", "{'a': 1, 'b': 2}", "size({1: 'x', 2: 'y'}) + n",
    "[1, 2].exists(x, {'k': 1, 'k': 2}.k == x)", "[1, 2, 3].all(x, size({1: 1, 1: 2}) > 0 || x > 5)", "l.map(x, {'a': 1, 'b': 2}.a + x)", "[{'k': 1}, {'k': 1, 'k': 1}].size()",
    "{'k': 1, 'k': 2}.k == 1 || n > 0", "{1: 1, 1u: 2}", "{true: 1, false: 2, true: 3}.size()",
]
REUSE_ENVS = [
    {"l": ("list", (("int", 1), ("int", 2))), "n": ("int", 1), "m": ("map", ((("string", "k"), ("list", (("int", 1),))),)), "s": ("string", "ab")},
    {"l": ("list", (("int", 5), ("int", 0), ("int", 5))), "n": ("int", 5), "m": ("map", ((("string", "k"), ("list", (("int", 5), ("int", 7)))),)), "s": ("string", "a")},
    {"l": ("list", ()), "n": ("int", 0), "m": ("map", ((("string", "k"), ("list", ())),)), "s": ("string", "")},
    {"l": ("list", (("int", -1),)), "n": ("int", 2), "m": ("map", ((("string", "k"), ("list", (("int", 2), ("int", -1)))),)), "s": ("string", "ba")},
]


# sizes around the thresholds at which an implementation might switch algorithms (fast path for short inputs, chunking, hashing)
SIZES = [17, 25, 33, 65, 129, 257, 1025]
SIZE_PROBES = [
    "size(l) == n", "l[n - 1]", "l[n]", "l[n - 2] + l[0]", "l.map(x, x + 1)", "l.filter(x, x % 2 == 0)", "l.exists_one(x, x == n - 1)", "ld.exists_one(x, x == 1)", "l.exists_one(x, x == 0 || x == n - 1)",
    "l.all(x, x >= 0)", "l.all(x, x < n - 1)", "l.exists(x, x == n - 1)", "(n - 1) in l", "n in l", "0 in l", "l + l", "size(l + ld) == n + n", "(l + l)[n] == l[0]", "l.map(x, x * 2)[n - 1]",
    "l.filter(x, x >= n - 3).map(x, x - n)", "ld.filter(x, x == 2).size()", "l.map(x, ld[x])", "size(s) == n", "s.endsWith('yz') || s.contains('abc')", "(s + s).startsWith(s)", "(s + 'q').endsWith('q')",
    "s.contains(s)", "size(s + s) == n + n", "s.matches('^[a-z]+.$')", "size(m) == n", "m['k' + string(n - 1)] == n - 1", "('k' + string(n)) in m", "('k' + string(n - 1)) in m", "has(m.k0) && !has(m.nope)",
    "m.all(k, m[k] >= 0)", "m.exists_one(k, m[k] == n - 1)", "m.map(k, m[k]).size() == n", "[l, ld].map(x, size(x))", "l.map(x, [x, x + 1]).filter(p, p[1] == n).size()",
]


def size_probes(acc, ctx):
    """Long lists, maps and strings, literal-free (bound), through the same reference evaluator."""
    c = core.celpy()
    parser = c.CELParser(tree_class=c.TranspilerTree)
    from .. import larkconv

    nodes = [larkconv.with_simple_literals(larkconv.conv(parser.parse(src))) for src in SIZE_PROBES]
    k = 0
    for n in SIZES if ctx.thorough else SIZES[:6]:
        l = tuple(("int", i) for i in range(n))
        env = {
            "l": ("list", l), "ld": ("list", tuple(("int", i % 3) for i in range(n))), "n": ("int", n),
            "s": ("string", "".join(chr(0x61 + i % 26) for i in range(n - 1)) + "\U0001f431"),
            "m": ("map", tuple((("string", "k%d" % i), ("int", i)) for i in range(n))),
        }
        for node in nodes:
            k += 1
            if ctx.mine(k):
                acc.hook("size-probe")
                check_program(acc, node, env, "size-probe")
    acc.exhaustive.append("%d list/map/string programs x sizes %s" % (len(SIZE_PROBES), SIZES if ctx.thorough else SIZES[:6]))


def macro_error_positions(acc, ctx):
    """Every macro x every list over {match, no match, failing element} up to length 4 x several failing bodies: a comprehension
    does not stop early, so a failing element anywhere makes map/filter/exists_one an error; all/exists absorb it only when another
    element decides.  (Complete enumeration; the reference evaluator gives the expectation.)"""
    import itertools

    c = core.celpy()
    parser = c.CELParser(tree_class=c.TranspilerTree)
    from .. import larkconv

    bodies = ["1 / x == 1", "[7, 1][x] == 1", "{1: 1, 2: 2}[x] == 1", "x == 1 || 1 / x == 1", "1 / x == 1 && x == 1"]
    k = 0
    for m in ("map", "filter", "exists_one", "all", "exists"):
        for body in bodies:
            node = larkconv.with_simple_literals(larkconv.conv(parser.parse(f"l.{m}(x, {body})")))
            for ln in range(1, 5):
                for seq in itertools.product((1, 2, 0), repeat=ln):
                    k += 1
                    if not ctx.mine(k):
                        continue
                    acc.hook("macro-error-position")
                    check_program(acc, node, {"l": ("list", tuple(("int", v) for v in seq))}, "macro-error-position", cached=True)
    acc.exhaustive.append("5 macros x 5 bodies x every list over {match, no match, failing element} up to length 4")


# the iteration variable spelled like a name that is already bound (by the caller or by an enclosing macro): the body is evaluated
# at the ELEMENT (deterministic list; the generator produces such programs only now and then)
SHADOW_TEXTS = [
    "l.map(n, n * 2)", "l.filter(n, n > 1)", "l.exists(n, n == 2)", "l.all(n, n > 0)", "l.exists_one(n, n == 2)", "[1, 2].map(x, [10, 20].map(x, x + 1))", "[[1, 2], [3]].map(x, x.map(x, x * 2))",
    "[1, 2].map(x, [x, 5].filter(x, x > 1))", "l.map(n, l.filter(n, n >= 2).size())", "[1, 2, 3].filter(n, [n].exists(n, n == 2))", "l.map(s, s + 1)", "m.k.map(n, n + n)", "l.map(n, n in l)",
    "[2, 3].exists(n, l.all(n, n > 0) && n == 3)", "n + l.map(n, n)[0] + n", "l.map(n, n)[0] == n || l.exists(n, n == 5)", "size(l.filter(n, n != 1)) + n",
]


def shadow_programs(acc, ctx):
    c = core.celpy()
    parser = c.CELParser(tree_class=c.TranspilerTree)
    from .. import larkconv

    for i, src in enumerate(SHADOW_TEXTS):
        if not ctx.mine(i):
            continue
        node = larkconv.with_simple_literals(larkconv.conv(parser.parse(src)))
        for env in REUSE_ENVS[:2] + [{"l": ("list", (("int", 1), ("int", 2), ("int", 3))), "n": ("int", 50), "m": ("map", ((("string", "k"), ("list", (("int", 4), ("int", 5)))),)), "s": ("string", "zz")}]:
            acc.hook("shadowing-macro-variable")
            check_program(acc, node, env, "shadow")


def string_function_sweep(acc, ctx):
    """startsWith / endsWith / contains / size over every ordered pair of a small set of strings (empty, repeated, overlapping,
    non-BMP, combining): complete, so that a wrong predicate does not depend on what the generator draws."""
    S = ["", "a", "b", "ab", "ba", "aba", "abab", "bab", "\U0001f431", "a\U0001f431", "\U0001f431a", "\u00e9", "e\u0301", "ab\U0001f431ab"]
    k = 0
    for x in S:
        for y in S:
            k += 1
            if not ctx.mine(k):
                continue
            benv = MV.cel_env({"s": ("string", x), "t": ("string", y)})
            want = [x.startswith(y), x.endswith(y), y in x, len(x), len(x + y)]
            src = "[s.startsWith(t), s.endsWith(t), s.contains(t), size(s), (s + t).size()]"
            acc.hook("string-function-sweep")
            acc.nt(["strfn", x, y])
            for r in "IC":
                out = core.eval_cached(r, src, benv)
                acc.hook("evaluate:" + r)
                acc.evaluations += 1
                got = [z[1] if z[0] in ("BoolType", "bool") else int(z[1]) for z in out[1][1]] if out[0] == "V" and out[1][0] in ("ListType", "list") else None
                acc.cell("string-function-sweep", r, "ok" if got == want else "differ")
                if got != want:
                    names = ["startsWith", "endsWith", "contains", "size", "size-of-concatenation"]
                    bad = next((names[i] for i in range(5) if got is None or got[i] != want[i]), "?")
                    acc.violation(
                        f"{r} meth {bad}/1 (string,string) obs={'V:list' if got is not None else diag.oclass(out).split('@')[0]} exp=V:bool",
                        f"{'interpreted' if r == 'I' else 'compiled'}: {src} with s={x!r} t={y!r} gave {got if got is not None else core.jkey(out)[:60]}, expected {want}",
                        {"src": src, "bindings": MV.enc_env({"s": ("string", x), "t": ("string", y)}), "runner": r, "expected": MV.enc(("list", tuple(("bool", v) if isinstance(v, bool) else ("int", v) for v in want)))},
                    )
    acc.exhaustive.append("startsWith / endsWith / contains / size over all ordered pairs of 14 strings")


def fixed_reuse(acc, ctx):
    c = core.celpy()
    parser = c.CELParser(tree_class=c.TranspilerTree)
    from .. import larkconv

    for i, src in enumerate(REUSE_TEXTS):
        if not ctx.mine(i):
            continue
        node = larkconv.with_simple_literals(larkconv.conv(parser.parse(src)))
        for order in ([0, 1, 2, 3, 0], [3, 2, 1, 0, 3], [1, 0, 1, 3, 2]):
            check_reuse(acc, node, [REUSE_ENVS[k] for k in order], "fixed")


def run(ctx):
    acc = ctx.acc
    rnd = ctx.rnd
    core.celpy()
    fixed_reuse(acc, ctx)
    shadow_programs(acc, ctx)
    string_function_sweep(acc, ctx)
    size_probes(acc, ctx)
    macro_error_positions(acc, ctx)
    index_sweep(acc, ctx)
    computed_index_sweep(acc, ctx)
    key_sweep(acc, ctx)
    regex_checks(acc, ctx, ctx.scale(2400, 80000))
    law_checks(acc, ctx, ctx.scale(4000, 160000))
    n = ctx.scale(7000, 320000)
    for j in range(n):
        if ctx.expired():
            break
        g = tgen.TGen(rnd, features=FEATURES, small=rnd.random() < 0.75, maxdepth=rnd.randint(1, 4), errors=rnd.choice([0.0, 0.05, 0.1]))
        r = rnd.random()
        if r < 0.35:
            t = "bool"
        elif r < 0.5:
            t = "int"
        elif r < 0.8:
            t = ("list", rnd.choice(tgen.ELEM_TYPES))
        elif r < 0.9:
            t = "string"
        else:
            t = ("map", rnd.choice(tgen.KEY_TYPES), rnd.choice(tgen.ELEM_TYPES))
        node = g.gen(t)
        check_program(acc, node, g.model_env(), "generated")
        if g.bindings and j % 3 == 0:
            e1 = g.model_env()
            check_reuse(acc, node, [e1, g.redraw_env(), g.redraw_env(), e1], "generated")
        if j % 997 == 0:
            try:
                acc.sample({"src": lang.to_text(node), "bindings": MV.enc_env(g.model_env())})
            except ValueError:
                pass


def replay(case):
    core.celpy()
    if case.get("kind") == "reuse":
        c = core.celpy()
        env = c.Environment(runner_class=core.runner_class(case["runner"]))
        prog = env.program(env.compile(case["src"]))
        outs = []
        for e in case["sequence"]:
            try:
                outs.append(["V", core.canon(prog.evaluate(MV.cel_env(MV.dec_env(e))))])
            except c.CELEvalError:
                outs.append(["E"])
        fresh = core.api_eval(case["runner"], case["src"], MV.cel_env(MV.dec_env(case["sequence"][-1])))
        return outs[-1] == fresh, f"{case['src']!r} [{case['runner']}]: last evaluation of the reused program {outs[-1]}, fresh program {fresh}"
    out = core.api_eval(case["runner"], case["src"], MV.cel_env(MV.dec_env(case.get("bindings", {}))))
    exp = case["expected"]
    ok = out[0] == "E" if exp == "E" else (out[0] == "V" and MV.same_value_ignoring_class(out[1], MV.canon_of(MV.dec(exp))))
    return ok, f"{case['src']!r} [{case['runner']}] bindings={case.get('bindings')}\n-> {out}\nexpected {exp}"
