"""C04  Evaluation ends in a value or a CEL error, never another exception."""

from __future__ import annotations

import re

from .. import core, corpus, diag, lang, larkconv, mv as MV, tgen
from ..lang import Node

ID = "C04"
READY = True
LEVEL = "exploration"
WORKERS = {"quick": 8, "thorough": 16}
BUDGET = {"quick": 300, "thorough": 420}
MIN_NONTRIVIAL = {"quick": 3000, "thorough": 60000}
REQUIRED_HOOKS = ["compile", "evaluate:I", "evaluate:C", "render", "operator-sweep", "function-sweep"]
RULE = (
    "Strings for compile(): corpus and generated sources mutated at token level (delete/duplicate/swap/insert tokens, unbalanced brackets and "
    "quotes), random Unicode/control characters, blank and multi-line text; every raise must be CELParseError with 1<=line<=#lines and "
    "1<=column<=len(line)+1. Programs: ill-typed programs from the type-confused generator, special ill-formed macro/function uses, limit probes; "
    "evaluated under both runners; every raise must be CELEvalError, and str()/repr() of every raised library error must return a str. "
    "distinct_nontrivial = distinct inputs that are syntactically invalid or whose evaluation is an error."
)
TECHNIQUE = (
    "runtime monitoring: exception-class monitor at compile/program/evaluate boundaries over mutated texts, ill-typed generated programs and complete function / operator x value-kind sweeps; str()/repr() of every raised error"
)
ASSUMPTIONS = [
    "CELSyntaxError/CELUnsupportedError count as 'other exception' (the statement names only the parse error and the evaluation error)",
    "a returned value that merely contains an error object is not judged here (C03 sees it)",
    "programs stay within CEL's minimum size limits (<= 32 repetitions, <= 24 nested parentheses, <= 12 nested calls)",
]

TOKEN = re.compile(
    r"""[rRbB]{0,2}\"\"\"(?:\\.|[^\\])*?\"\"\"|[rRbB]{0,2}'''(?:\\.|[^\\])*?'''|[rRbB]{0,2}"(?:\\.|[^"\\\n])*"|[rRbB]{0,2}'(?:\\.|[^'\\\n])*'"""
    r"""|\d+\.\d*(?:[eE][+-]?\d+)?|\.\d+|0[xX][0-9a-fA-F]+[uU]?|\d+[uU]?|[A-Za-z_]\w*|&&|\|\||[<>=!]=|[-+*/%<>!?:.,\[\]{}()]|\s+|.""",
    re.S,
)
INSERTS = ["(", ")", "[", "]", "{", "}", "?", ":", ",", ".", "&&", "||", "!", "-", "+", "*", "/", "%", "==", "<", "in", "'", '"', "'''", '"""', "\\", "\n", "\t", " ", "//", "0x", "1e", "1.", "u", "b'", "r\"", "$", "@", "#", "~", "^", "&", "|", "=", ";", "`", "\x00", "\x7f", "\u00e9", "\u4e2d", "\U0001f431", "\ufeff", "\u2028", "\r", "\r\n", "\x0c", "true", "null", "has", "as", "if", "return", "9999999999999999999999"]

ILL_FORMED = [
    "[1].filter(.e, false)", "[1].map(.e, .e)", "1 in in[1]", "x && '''" + "ab\r" * 40, "null.map(x, x)", "1.map(x, x)", "'abc'.map(x, x)", "[1].map(x)", "[1].map()", "[1].map(1, 2)", "[1].map(x.y, 1)", "[1].map(x, x, x)", "[1].filter()",
    "[1].all(1, true)", "[1].exists('a', true)", "[1].exists_one()", "[1].exists_one(x)", "{}.map(x, x)", "{1: 2}.filter(k, k)", "[1].map([x], 1)",
    "[1].map(x + 1, x)", "[1].map(x(), x)", "[1].reduce(r, i, 0, r + i)", "[1].reduce()", "[1].reduce(r, i)", "[1].min()", "[].min()", "['a', 1].min()", "[null].min()",
    "has()", "has(1)", "has(x)", "has(x, y)", "has(1.f)", "has([1][0])", "has({}.a.b)", "has(null.a)", "has('a'.b)", "has(x.y)", "has({'a': 1}.a, 1)",
    "dyn()", "dyn(1, 2)", "type()", "type(1, 2)", "size()", "size(1)", "size(null)", "size(1, 2)", "int()", "int(null)", "int([])", "int({})", "uint('-1')", "uint(null)",
    "double('x')", "double([])", "bool(1)", "bool('x')", "bool(null)", "string(null)", "string([])", "string({})", "bytes(1)", "bytes(null)", "timestamp(1)",
    "timestamp('x')", "timestamp(null)", "duration(1)", "duration('x')", "duration(null)", "duration('1y')", "timestamp('2009-02-30T00:00:00Z')", "timestamp('10000-01-01T00:00:00Z')",
    "timestamp('0000-01-01T00:00:00Z')", "duration('9999999999999999s')", "duration('-9999999999999999s')", "list(1)", "map(1)", "null_type(1)", "list()", "map()",
    "-[]", "-{}", "-'a'", "-null", "-true", "-1u", "!1", "!null", "![]", "!'a'", "-b'a'", "1 + [].size() + 'a'", "[] + 1", "{} + {}", "null + null", "1 + null", "'a' + 1",
    "'a' * 2", "[1] * 2", "1 / 'a'", "1 % 1.0", "1.0 % 1.0", "1.0 % 2", "true + true", "true < 1", "null < null", "[] < []", "{} < {}", "{} == 1", "[] == 1", "1 in 1",
    "1 in null", "'a' in 'abc'", "1 in {'a': 1}", "[1][null]", "[1]['a']", "[1][true]", "[1][[0]]", "{}[null]", "{}[[1]]", "{}[{}]", "{}[1.5]", "1[0]", "null[0]", "'abc'[0]", "true[0]",
    "1.a", "null.a", "'a'.b", "[1].a", "true.a", "1.5.a", "b'a'.b", "{}.a.b", "x.a", "x.a.b.c", "x[0]", "x()", "x(1)", "x.f()", "1.f()", "null.f()", "[].f(1, 2, 3)",
    "'a'.contains(1)", "'a'.contains()", "'a'.startsWith(1)", "'a'.endsWith(null)", "'a'.matches(1)", "'a'.matches('(')", "'a'.matches('[')", "'a'.matches('*')", "'a'.matches('a{2,1}')",
    "1.contains(1)", "[1].contains(1)", "{}.contains(1)", "null.contains(1)", "contains()", "contains('a')", "startsWith('a', 'a', 'a')", "matches('a')",
    "1.size()", "null.size()", "true.size()", "1.5.size()", "'a'.size(1)", "1.getFullYear()", "'a'.getHours()", "null.getDate()", "duration('1s').getFullYear()", "duration('1s').getHours('UTC')", "getMinutes(duration('1s'), 'UTC')",
    "timestamp('2009-02-13T23:31:30Z').getHours(1)", "timestamp('2009-02-13T23:31:30Z').getHours('Nowhere/City')", "timestamp('2009-02-13T23:31:30Z').getHours('+99:99')",
    "timestamp('2009-02-13T23:31:30Z').getHours('')", "timestamp('2009-02-13T23:31:30Z').getHours(null)", "timestamp('2009-02-13T23:31:30Z').getHours('a', 'b')",
    "timestamp('0001-01-01T00:00:00Z').getFullYear('-01:00')", "timestamp('9999-12-31T23:59:59Z').getFullYear('+01:00')", "timestamp('0001-01-01T00:00:00Z').getDayOfYear('-14:00')",
    "timestamp('9999-12-31T23:59:59Z').getDayOfWeek('+14:00')", "timestamp('0001-01-01T00:00:00Z').getDate('America/New_York')", "timestamp('9999-12-31T23:59:59Z').getMonth('Asia/Tokyo')",
    "timestamp('0001-01-01T00:00:00Z') - duration('1s')", "timestamp('9999-12-31T23:59:59Z') + duration('1s')", "timestamp('0001-01-01T00:00:00Z') - timestamp('9999-12-31T23:59:59Z')",
    "duration('315576000000s') + duration('1s')", "duration('-315576000000s') - duration('1s')", "timestamp('9999-12-31T23:59:59Z') + duration('315576000000s')",
    "timestamp('2009-02-13T23:31:30Z') + 1", "timestamp('2009-02-13T23:31:30Z') * duration('1s')", "duration('1s') * 2", "duration('1s') / 2", "-duration('1s')", "timestamp('2009-02-13T23:31:30Z') + timestamp('2009-02-13T23:31:30Z')",
    "duration('1s') - timestamp('2009-02-13T23:31:30Z')", "int(timestamp('9999-12-31T23:59:59Z'))", "int(timestamp('0001-01-01T00:00:00Z'))", "uint(timestamp('0001-01-01T00:00:00Z'))",
    "1 ? 2 : 3", "null ? 1 : 2", "'a' ? 1 : 2", "[] ? 1 : 2", "1 && 2", "null || null", "'a' && true", "1 || false", "[] && {}", "true ? x : 1", "false ? 1 : x",
    '"\\999"', "b'\\400'", '"\\U00110000"', '"\\UFFFFFFFF"', "'\\ud800'", '"\\udfff"', "b'\\u00e9'", "b'\\777'", '"\\377"', '"\\400"', '"\\x00"', "'\\000'", "b'\\U0001f431'", "b\"\\u1234\"",
    "9223372036854775808", "-9223372036854775809", "18446744073709551616u", "-1u", "0x8000000000000000", "-0x8000000000000001", "0xFFFFFFFFFFFFFFFFFu", "1e999", "-1e999", "1e-999",
    "99999999999999999999999999999999999999.0", "0x", "1u2", "00", "0u", "-0", "-0.0", "-0u", "1.", ".1", "1e1", "1E1u",
    "{1: 1, 1: 2}", "{'a': 1, 'a': 2}", "{true: 1, true: 2}", "{1u: 1, 1u: 2}", "{1: 1, 1u: 2}", "{1: 1, true: 2}", "{[]: 1}", "{{}: 1}", "{null: 1}", "{1.0: 1}", "{b'a': 1}", "{1: 2}[1u]", "{1u: 2}[1]", "{true: 1}[1]",
    "{1/0: 1}", "{1: 1/0}", "[1/0]", "[1/0, 2][1]", "[[]][0][0]", "[{}][0].a", "[[1]][0][1]", "{'a': []}.a[0]", "{'a': {}}.a.b", "[].size().size()",
    "type(1)(2)", "int(1)(2)", "type(int)", "type(type)", "type(null_type)", "type(x)", "int == int", "int < uint", "int + int", "-int", "!bool", "int.a", "int[0]", "list[0]", "int in [int]", "[int, uint]", "{int: 1}", "{'a': int}.a", "size(int)", "string(int)", "int(int)", "[1].map(int, int)",
    "google.protobuf.Int32Value{value: 1}", "google.protobuf.Int32Value{}", "google.protobuf.Struct{}", "google.protobuf.ListValue{}", "google.protobuf.BoolValue{value: 'x'}", "google.protobuf.Int64Value{value: 1, value: 2}",
    "google.protobuf.Nope{}", "google.protobuf", "google", "google.protobuf.Int32Value", "google.nope", "x{}", "x{a: 1}", "1{}", "int{}", "int{a: 1}", "[]{}", "null{}", "'a'{}",
    ".x", ".x.y", ".x()", ".x(1)", ".int", ".size('a')", ".google.protobuf.Int32Value{value: 1}",
    "a.b.c.d.e.f.g.h", "a[b][c][d]", "a(b(c(d(e(f(g(h(i(j(k(l(1))))))))))))",
]


def tokens(src: str):
    return [t for t in TOKEN.findall(src)]


def mutate(rnd, src: str) -> str:
    toks = tokens(src)
    if not toks:
        return rnd.choice(INSERTS)
    for _ in range(rnd.choice([1, 1, 1, 2, 3])):
        op = rnd.random()
        i = rnd.randrange(len(toks)) if toks else 0
        if op < 0.25 and toks:
            del toks[i]
        elif op < 0.4 and toks:
            toks.insert(i, toks[i])
        elif op < 0.55 and len(toks) > 1:
            j = rnd.randrange(len(toks))
            toks[i], toks[j] = toks[j], toks[i]
        elif op < 0.9:
            toks.insert(i, rnd.choice(INSERTS))
        elif toks:
            t = toks[i]
            if len(t) > 1:
                k = rnd.randrange(len(t))
                toks[i] = t[:k] + t[k + 1 :]
        if not toks:
            break
    return "".join(toks)


def random_text(rnd) -> str:
    n = rnd.choice([0, 1, 2, 3, 5, 8, 20])
    alpha = rnd.choice(["ab1 ", "()[]{}?:.,", "\"'\\`", "\n\r\t\x0c\x00 ", "éß中\U0001f431\u2028\ufeff", "+-*/%<>=!&|", "0123456789.eExXuU-", "".join(INSERTS)])
    return "".join(rnd.choice(alpha) for _ in range(n))


def check_compile(acc, src: str, origin: str):
    """compile() any string: tree or CELParseError with a location inside the text."""
    c = core.celpy()
    acc.hook("compile")
    acc.evaluations += 1
    env = c.Environment(runner_class=c.CompiledRunner)
    try:
        guarded_compile(env, src, 6)
        acc.cell("compile", origin, "tree")
        return True
    except CompileTimeout:
        return compile_timeout(acc, env, src, origin)
    except c.CELParseError as ex:
        acc.nt(["s", src])
        lines = src.split("\n")
        # the parser counts '\n' only as a line break
        ok = isinstance(ex.line, int) and isinstance(ex.column, int) and 1 <= ex.line <= max(1, len(lines))
        if ok:
            ok = 1 <= ex.column <= len(lines[ex.line - 1]) + 1
        acc.cell("compile", origin, "CELParseError", "located" if ok else "bad-location")
        render(acc, ex, src, "compile")
        if not ok:
            kind = "None" if ex.line is None or ex.column is None else "outside-text"
            acc.violation(
                f"parse-error-location {kind} {type(ex.__cause__ or ex.__context__).__name__}",
                f"CELParseError for {src[:80]!r} carries line={ex.line!r} column={ex.column!r}",
                {"kind": "compile", "src": src},
            )
            return False
        return True
    except Exception as ex:
        acc.nt(["s", src])
        acc.cell("compile", origin, "X:" + type(ex).__name__)
        acc.violation(
            f"compile X:{type(ex).__name__}@{core._left_from(ex)}",
            f"compile({src[:80]!r}) raised {type(ex).__name__}: {core._msg(ex)}",
            {"kind": "compile", "src": src},
        )
        return False


class CompileTimeout(BaseException):
    pass


def _alarm(*_):
    raise CompileTimeout()


def guarded_compile(env, src, seconds):
    import signal

    old = signal.signal(signal.SIGALRM, _alarm)
    signal.alarm(seconds)
    try:
        return env.compile(src)
    finally:
        signal.alarm(0)
        signal.signal(signal.SIGALRM, old)


def compile_timeout(acc, env, src, origin):
    """compile() neither returned nor raised within the guard.

    A wall-clock guard is not a verdict by itself: the only accepted attribution is the
    structural signature of exponential regex backtracking in the lexer (an unterminated
    quoted literal followed by many backslash escapes); anything else is retried with a
    much longer guard before it is reported.
    """
    acc.cell("compile", origin, "timeout")
    acc.nt(["s", src])
    acc.hook("compile-timeout")
    unterminated = any(src.count(q) % 2 == 1 for q in ('"""', "'''", '"', "'"))
    if unterminated and src.count("\\") >= 10:
        acc.violation("compile-timeout unterminated-literal-with-escapes", f"compile({src[:60]!r}...) did not finish within 6 s", {"kind": "compile", "src": src})
        return False
    # second signature of the same defect: inside an unterminated triple-quoted literal every line break matches two alternatives of the
    # MLSTRING_LIT pattern (`\r` / `\n` and `.`), so the lexer doubles its work per line break.  Attributed only when the same text
    # with the line breaks after the opening quotes replaced by blanks compiles (or is rejected) at once.
    for q in ('"""', "'''"):
        if src.count(q) % 2 == 1:
            head_, tail_ = src[: src.rindex(q) + 3], src[src.rindex(q) + 3 :]
            if sum(tail_.count(c) for c in "\r\n") >= 12:
                try:
                    guarded_compile(env, head_ + tail_.replace("\r", " ").replace("\n", " "), 6)
                except CompileTimeout:
                    break
                except Exception:
                    pass
                acc.violation("compile-timeout unterminated-multiline-literal-with-line-breaks", f"compile({src[:60]!r}...) did not finish within 6 s", {"kind": "compile", "src": src})
                return False
    try:
        guarded_compile(env, src, 60)
        return True
    except CompileTimeout:
        acc.violation("compile-timeout other", f"compile({src[:60]!r}...) did not finish within 60 s", {"kind": "compile", "src": src})
        return False
    except Exception:
        return True


def render(acc, ex, src, where):
    acc.hook("render")
    for fn in (str, repr):
        try:
            r = fn(ex)
            if not isinstance(r, str):
                raise TypeError("not a str")
        except Exception as rex:
            acc.violation(
                f"render {fn.__name__}({type(ex).__name__}) {type(rex).__name__}@{core._left_from(rex)}",
                f"{fn.__name__}() of the {type(ex).__name__} raised by {where} of {src[:80]!r} raised {type(rex).__name__}: {core._msg(rex)}",
                {"kind": "render", "src": src, "where": where},
            )
            return False
    return True


def check_eval(acc, src: str, benv, origin: str, node=None, tag=None):
    b = MV.cel_env(benv) if benv else {}
    ok = True
    for r in "IC":
        out = core.api_eval(r, src, b, raw=True)
        acc.hook("evaluate:" + r)
        acc.evaluations += 1
        raw = out[-1]
        out = out[:-1]
        acc.cell("eval", origin, r, diag.oclass(out).split("@")[0])
        if out[0] in ("E", "P", "X"):
            acc.nt(["p", src, sorted(benv) if benv else []])
        if out[0] in ("E", "P"):
            ok = render(acc, raw, src, f"evaluate[{r}]") and ok
        if out[0] != "X":
            continue
        ok = False
        slug = None
        detail = ""
        if node is not None:

            def o(n):
                return core.api_eval(r, lang.to_text(n), b)

            try:
                m = diag.localize(node, lambda n: o(n)[0] == "X")
                mo = o(m)
                if mo[0] != "X":
                    m, mo = node, out
                sh = diag.shape(m, lambda x: diag.coarse(o(x)))
                slug = f"{r} {sh} X:{mo[2]}@{mo[1]}:{mo[3]}"
                detail = f" minimal sub-expression {lang.to_text(m)!r}"
                if mo[2] == "SyntaxError" and mo[1] == "program" and not sh.startswith(("var:python-keyword", "field:python-keyword")) and diag.has_python_keyword_name(m):
                    # localisation stops above an identifier that does not parse on its own (`in`): attribute the failure to the keyword
                    # spelling when the same tree with those names re-spelled no longer fails
                    if o(diag.rename_python_keywords(m))[0] != "X":
                        slug = f"{r} var:python-keyword (in {sh.split(' (')[0]}) X:{mo[2]}@{mo[1]}:{mo[3]}"
            except Exception as ex:
                detail = f" (localisation failed {type(ex).__name__})"
        if slug is None:
            slug = f"{r} text:{tag or origin} X:{out[2]}@{out[1]}:{out[3]}"
        acc.violation(
            slug,
            f"{'interpreted' if r == 'I' else 'compiled'} runner: {out[2]} escaped from {out[1]} ({out[3]}) for {src[:100]!r}: {out[4]}{detail}",
            {"kind": "eval", "runner": r, "src": src, "bindings": MV.enc_env(benv or {})},
        )
    return ok


SWEEP_FUNCS = [
    "bool", "bytes", "contains", "double", "duration", "endsWith", "getDate", "getDayOfMonth", "getDayOfWeek", "getDayOfYear", "getFullYear", "getHours",
    "getMilliseconds", "getMinutes", "getMonth", "getSeconds", "int", "list", "map", "matches", "null_type", "size", "startsWith", "string", "timestamp", "type", "uint", "dyn",
]
SWEEP_ARGS = [
    "1", "1u", "1.5", "'a'", "b'a'", "true", "null", "[1]", "{'a': 1}", "timestamp('2009-02-13T23:31:30Z')", "duration('3601s')", "int", "'UTC'", "'-08:00'", "x",
]


def function_sweep(max_arity):
    """every built-in function name x every tuple of argument kinds (arity 0..max_arity), function and method form"""
    import itertools

    for f in SWEEP_FUNCS:
        for n in range(max_arity + 1):
            for args in itertools.product(SWEEP_ARGS, repeat=n):
                yield f"{f}({', '.join(args)})"
                if n >= 1:
                    recv = args[0] if args[0][0] not in "1-" else f"({args[0]})"
                    yield f"{recv}.{f}({', '.join(args[1:])})"


# value kinds for the operator sweep: every scalar type, empty / homogeneous / heterogeneous containers (CEL lists and maps are
# dynamically typed: [1, 'a', null] and {'a': 1, 2: 3} are values), range edges, type objects, unbound and bound names
KINDS = [
    "1", "(-1)", "0", "1u", "1.5", "'a'", "''", "b'a'", "true", "false", "null", "[]", "[1]", "[1, 'a', null]", "[[1], {'a': 1}]", "{}", "{'a': 1}",
    "{'a': 1, 2: 3}", "{1u: 'x', 2: 'y', true: 'z'}", "{'k': [1, 'a'], 'm': {1: null}}", "timestamp('2009-02-13T23:31:30Z')", "duration('3601s')", "int", "type(null)",
    "x", "nope", "hm", "hl", "9223372036854775807", "(-9223372036854775807 - 1)", "18446744073709551615u", "1e308", "dyn(1)", "dyn('a')",
    "(1.0 / 0.0)", "(0.0 / 0.0)", "(-1.0 / 0.0)", "(-0.0)", "5e-324",
    "'US$ ${n} $$ {0} %s'", "b'$x ${left}'",
]
BINOPS = ["+", "-", "*", "/", "%", "==", "!=", "<", "<=", ">", ">=", "in", "&&", "||"]
SWEEP_ENV = {
    "x": ("map", ((("string", "a"), ("int", 1)),)),
    "hm": ("map", ((("string", "a"), ("int", 1)), (("int", 2), ("string", "b")), (("bool", True), ("null", None)), (("uint", 3), ("list", (("int", 1),))))),
    "hl": ("list", (("int", 1), ("string", "a"), ("null", None), ("list", ()), ("map", ()), ("double", 1.5), ("bool", False), ("uint", 7), ("bytes", b"z"))),
}


def operator_sweep(full):
    """every operator / member / index / macro form x every (pair of) value kind(s)"""
    import itertools

    for a, b in itertools.product(KINDS, repeat=2):
        for op in BINOPS:
            yield f"{a} {op} {b}"
        yield f"{a}[{b}]"
        yield f"{a} ? {b} : {a}"
        yield f"{a}.exists_one(e, e == {b})"
        yield f"{a}.filter(e, e != {b})"
        yield f"{a}.map(e, [e, {b}])"
        yield f"[{a}, {b}]"
        yield f"{{{a}: {b}}}"
        yield f"{a}.all(e, {b})"
        if full:
            yield f"{a}.exists(e, e in {b})"
            yield f"{a}.map(e, e + {b})"
            yield f"{{{a}: 1, {b}: 2}}"
            yield f"[{a}].exists(e, e < {b})"
    for a in KINDS:
        for form in ("-{}", "!{}", "{}.a", "{}.missing", "{}.a.b", "has({}.a)", "has({}.missing)", "has({}.a.b)", "size({})", "{}.size()", "type({})", "string({})", "dyn({})",
                     "{}.map(e, e)", "{}.all(e, e)", "{}.exists(e, e)", "{}.filter(e, true)", "{}.map(e, e.a)", "{}.map(e, has(e.a))", "{}.f()", "{}.f({})", "{} in {}", "{} == {}", "[{}][0]",
                     "{}[0]", "{}['a']", "{}[null]", "{}.all(e, e.missing)", "true || {}.missing", "{}.missing || true", "false ? 1 : {}.missing", "{}.missing ? 1 : 2", "[{}.missing]",
                     "{{'k': {}.missing}}", "{}.exists_one(e, e.missing == 1)"):
            yield form.replace("{}", a) if "{{" not in form else form.format(a)


def limit_probes():
    out = []
    out.append(" + ".join(["1"] * 32))
    out.append(" && ".join(["true"] * 32))
    out.append(" || ".join(["false"] * 32))
    out.append(" == ".join(["1"] * 8))
    out.append("(" * 24 + "1" + ")" * 24)
    out.append("[" * 12 + "1" + "]" * 12)
    out.append("size(" * 1 + "string(" * 11 + "1" + ")" * 12)
    out.append("[1]" + "".join(".map(x, x)" for _ in range(12)))
    out.append("x" + ".y" * 12)
    out.append("x" + "[0]" * 12)
    out.append("[" + ", ".join(str(i) for i in range(32)) + "]")
    out.append("{" + ", ".join(f"{i}: {i}" for i in range(32)) + "}")
    out.append("true ? 1 : " * 24 + "2")
    out.append("!" * 12 + "true")
    out.append("-" * 12 + "1")
    out.append("- " * 12 + "1")
    out.append("f(" + ", ".join(["1"] * 32) + ")")
    out.append("[[[[[[[[[[[[1/0]]]]]]]]]]]]")
    out.append("[1,2,3].map(a, [a].map(b, [b].map(c, [c].map(d, [d].map(e, a + b + c + d + e)))))")
    return out


def run(ctx):
    acc = ctx.acc
    rnd = ctx.rnd
    c = core.celpy()
    items = corpus.load()
    srcs = [it["expr"] for it in items]
    parser = c.CELParser(tree_class=c.TranspilerTree)

    # ---- programs: ill-formed list + limit probes (partitioned)
    probes = [(s, "ill-formed") for s in ILL_FORMED] + [(s, "limit") for s in limit_probes()]
    benv_x = {"x": ("map", ((("string", "a"), ("int", 1)),))}
    for i, (src, origin) in enumerate(probes):
        if not ctx.mine(i):
            continue
        for benv in ({}, benv_x):
            if check_compile(acc, src, origin):
                try:
                    tree = parser.parse(src)
                    node = larkconv.conv(tree)
                except Exception:
                    node = None
                if node is None:
                    try:
                        parser.parse(src)
                    except c.CELParseError:
                        continue
                    except Exception:
                        continue
                check_eval(acc, src, benv, origin, node=node, tag=origin)
    acc.sample({"program": ILL_FORMED[0]}, limit=1)

    # ---- programs: every function x argument-kind tuple (arity <= 2; <= 3 in the thorough tier), both call forms
    nsweep = 0
    for i, src in enumerate(function_sweep(3 if ctx.thorough else 2)):
        if not ctx.mine(i):
            continue
        if ctx.time_left() < 0.5 * ctx.budget_s:
            break
        try:
            node = larkconv.conv(parser.parse(src))
        except Exception:
            node = None
        check_eval(acc, src, benv_x, "function-sweep", node=node, tag="function-sweep")
        nsweep += 1
    else:
        acc.exhaustive.append("28 built-in function names x all argument-kind tuples over 15 kinds up to arity %d x function/method form" % (3 if ctx.thorough else 2))
    acc.hook("function-sweep", nsweep)

    # ---- programs: every operator / member / index / macro form x every pair of value kinds
    nops = 0
    for i, src in enumerate(operator_sweep(ctx.thorough)):
        if not ctx.mine(i):
            continue
        if ctx.time_left() < 0.35 * ctx.budget_s:
            break
        try:
            node = larkconv.conv(parser.parse(src))
        except Exception:
            node = None
        check_eval(acc, src, SWEEP_ENV, "operator-sweep", node=node, tag="operator-sweep")
        nops += 1
    else:
        acc.exhaustive.append("%d operator/member/index/macro forms x all pairs of %d value kinds (heterogeneous lists and maps, range edges, type objects, unbound names included)" % (len(BINOPS) + (12 if ctx.thorough else 8), len(KINDS)))
    acc.hook("operator-sweep", nops)

    # ---- programs: corpus (all of it, whatever it uses) under both runners
    for i, it in enumerate(items):
        if not ctx.mine(i):
            continue
        try:
            tree = parser.parse(it["expr"])
        except c.CELParseError:
            check_compile(acc, it["expr"], "corpus")
            continue
        except Exception:
            check_compile(acc, it["expr"], "corpus")
            continue
        try:
            node = larkconv.conv(tree)
        except larkconv.Unsupported:
            node = None
        check_eval(acc, it["expr"], {}, "corpus", node=node, tag="corpus:" + it["feature"])

    # ---- strings for compile
    ns = ctx.scale(12000, 400000)
    pool = srcs + ILL_FORMED
    for j in range(ns):
        if ctx.expired():
            break
        r = rnd.random()
        if r < 0.7:
            s = mutate(rnd, rnd.choice(pool))
            origin = "mutated"
        elif r < 0.85:
            s = random_text(rnd)
            origin = "random"
        else:
            # error on a late line
            s = "\n".join([rnd.choice(["1 +", "x &&", "// c", "", "  ", "[1,", "f("]) for _ in range(rnd.randint(1, 5))] + [mutate(rnd, rnd.choice(pool))])
            origin = "multiline"
        check_compile(acc, s, origin)
        if j % 1499 == 0:
            acc.sample({"compile": s})

    # ---- generated ill-typed programs
    np_ = ctx.scale(8000, 320000)
    for j in range(np_):
        if ctx.expired():
            break
        g = tgen.TGen(rnd, small=rnd.random() < 0.5, maxdepth=rnd.randint(1, 4), errors=0.1, chaos=rnd.choice([0.1, 0.25, 0.5]))
        t = rnd.choice(["bool", "int", g.rand_type(), "ts", "dur", "null", "type"])
        node = g.gen(t)
        try:
            src = lang.to_text(node)
        except ValueError:
            continue
        benv = g.model_env()
        if rnd.random() < 0.15:
            # also feed a token-level mutant of a *program* through evaluation when it still parses
            s2 = mutate(rnd, src)
            # compile() first, under the wall-clock guard: an unterminated literal with many escapes
            # makes the lexer backtrack exponentially (known finding) and must not hang the worker
            if check_compile(acc, s2, "mutated-program"):
                try:
                    n2 = larkconv.conv(parser.parse(s2))
                except Exception:
                    n2 = None
                if n2 is not None:
                    check_eval(acc, s2, benv, "mutated-program", node=n2)
        check_eval(acc, src, benv, "ill-typed", node=node)
        if j % 1499 == 0:
            acc.sample({"program": src, "bindings": MV.enc_env(benv)})


def replay(case):
    c = core.celpy()
    acc = core.Acc()
    if case["kind"] == "compile":
        ok = check_compile(acc, case["src"], "replay")
    elif case["kind"] == "render":
        ok = check_compile(acc, case["src"], "replay")
        if ok:
            ok = check_eval(acc, case["src"], {}, "replay")
    else:
        ok = check_eval(acc, case["src"], MV.dec_env(case.get("bindings", {})), "replay")
    text = f"case: {case}\n" + "\n".join(v["what"] for v in acc.violations)
    return ok and not acc.violations, text
