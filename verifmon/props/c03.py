"""C03  Compiled and interpreted runners produce the same outcome (differential monitor)."""

from __future__ import annotations

import json

from .. import core, corpus, diag, lang, larkconv, mv as MV, tgen
from ..lang import Node

ID = "C03"
READY = True
LEVEL = "exploration"
WORKERS = {"quick": 8, "thorough": 16}
BUDGET = {"quick": 150, "thorough": 420}
MIN_NONTRIVIAL = {"quick": 1500, "thorough": 30000}
REQUIRED_HOOKS = ["evaluate:I", "evaluate:C", "corpus", "program-reuse"]
RULE = (
    "Each case = (CEL source, bindings) evaluated through Environment/compile/program/evaluate under InterpretedRunner and "
    "CompiledRunner; canonical outcomes (exact result class + structural value, or evaluation error) must be equal. Sources: the "
    "conformance corpus restricted to built-ins, a type-directed generator (well-typed), the same generator with type confusion and "
    "injected failing sub-expressions (ill-typed), and a list of special spellings (keywords, literal forms). Program reuse: one program per runner "
    "evaluated against a sequence of activations whose name sets shrink and grow (a name bound earlier and absent later, a dotted name replaced by a map), "
    "outcomes compared at every step and against fresh programs. "
    "distinct_nontrivial counts distinct (source, bindings) pairs that contain a short-circuit operator, a macro, has(), or evaluate to an error."
)
TECHNIQUE = (
    "runtime monitoring: differential oracle (interpreting vs compiled runner) over generated, corpus and deterministic programs, program-reuse histories; fault localisation names the mechanism"
)
ASSUMPTIONS = [
    "the interpreting runner is the reference; cases where it leaves with a non-CEL exception are C04's and are not compared",
    "expressions use built-in operators/functions/macros only (host functions are C14)",
    "generated programs stay within CEL's minimum size limits",
]

SPECIALS = [
    ("007", "int-literal-leading-zeros"),
    ("-007", "int-literal-leading-zeros"),
    ("00u", "int-literal-leading-zeros"),
    ("1E+5", "float-exponent-spelling"),
    ("1e5", "float-exponent-spelling"),
    (".5", "float-exponent-spelling"),
    ("5.", "float-exponent-spelling"),
    ("0XFF", "hex-upper-x"),
    ("0xFFu", "hex-uint"),
    ("-0x10", "hex-negative"),
    ("class", "ident-python-keyword"),
    ("lambda", "ident-python-keyword"),
    ("None", "ident-python-keyword"),
    ("True", "ident-python-keyword"),
    ("match", "ident-python-softkw"),
    ("not", "ident-python-keyword"),
    ("x.class", "field-python-keyword"),
    ("{'class': 1}.class", "field-python-keyword"),
    ('{"a": null}.a', "null-valued-entry"),
    ('{"a": null}.a == null', "null-valued-entry"),
    ('x.nul == null ? "x" : "y"', "null-valued-entry"),
    ('[{"k": null}].map(m, m.k)', "null-valued-entry"),
    ('has(x.nul)', "null-valued-entry"),
    ('x["nul"]', "null-valued-entry"),
    ("ex_0", "ident-transpiler-temp"),
    ("CEL", "ident-transpiler-temp"),
    ("base_activation", "ident-transpiler-temp"),
    ("activation", "ident-transpiler-temp"),
    ("celpy", "ident-transpiler-temp"),
    ("operator", "ident-transpiler-temp"),
    ("identifiers", "ident-activation-attr"),
    ("functions", "ident-activation-attr"),
    ("package", "ident-activation-attr"),
    ("clone", "ident-activation-attr"),
    ("get", "ident-activation-attr"),
    ("resolve_variable", "ident-activation-attr"),
    ("x.get", "field-named-get"),
    ("x.keys", "field-named-like-dict-method"),
    ("x.items", "field-named-like-dict-method"),
    ("{'get': 1}.get", "field-named-get"),
    ("{'a': 1}.a", "field-plain"),
    ("'a\\'b'", "string-quote-escape"),
    ('"it\'s"', "string-quote-mixed"),
    ("'''a'b'''", "string-triple"),
    ("'\\\\'", "string-backslash"),
    ("'${x}'", "string-dollar"),
    ("'$x $$'", "string-dollar"),
    ("x['$a']", "string-dollar"),
    ("[1, 2, 3].map(x, x * 2)", "macro-plain"),
    ("[1, 2, 3].map(x, [x].map(x, x + 1))", "macro-nested-same-var"),
    ("[[1], [2]].map(x, x.map(y, y + x.size()))", "macro-nested"),
    ("[1, 2].all(x, [3, 4].exists(y, y > x))", "macro-nested"),
    ("[1,2,3].filter(x, x % 2 == 1).map(y, y * y)", "macro-chain"),
    ("{'a': 1, 'b': 2}.map(k, k)", "macro-on-map"),
    ("{'a': 1, 'b': 2}.all(k, k != '')", "macro-on-map"),
    ("{1: 1/0}", "map-literal-error-value"),
    ("{1/0: 1}", "map-literal-error-key"),
    ("[1/0]", "list-literal-error-element"),
    ("[1, 2][5] == 1 || true", "error-absorbed"),
    ("true || [1][5] == 1", "error-absorbed"),
    ("false && {}.a", "error-absorbed"),
    ("has({}.a) || 1/0 == 1", "error-absorbed"),
    ("!has({'a': 1}.a)", "has-under-not"),
    ("has({'a': 1}.a) && true", "has-under-and"),
    ("has({'a': 1}.b) ? 1 : 2", "has-under-cond"),
    ("[has({'a': 1}.a)]", "has-in-list"),
    ("type(has({'a': 1}.a))", "has-type"),
    ("has({'a': 1}.a) == true", "has-eq"),
    ("type(1)", "type-fn"),
    ("type(type(1))", "type-fn"),
    ("type(null)", "type-fn"),
    ("type([])", "type-fn"),
    ("null == null", "null-eq"),
    ("dyn(1) + 2", "dyn"),
    ("dyn([1, 'a'])", "dyn"),
    ("size('abc')", "size-fn"),
    ("'abc'.size()", "size-method"),
    ("1 in [1, 2]", "in-list"),
    ("'a' in {'a': 1}", "in-map"),
    ("1 in {}", "in-map"),
    ("-(-9223372036854775807 - 1)", "neg-overflow"),
    ("- - 1", "double-neg"),
    ("--1", "double-neg"),
    ("!!true", "double-not"),
    ("1 - -1", "minus-negative-literal"),
    ("1 -1", "minus-no-space"),
    ("x", "unbound"),
    ("x.y.z", "unbound-dotted"),
    ("x()", "unbound-function"),
    ("1.f()", "unbound-method"),
    ("'a'.f(1, 2)", "unbound-method"),
    ("size()", "builtin-wrong-arity"),
    ("size(1, 2)", "builtin-wrong-arity"),
    ("'a'.startsWith()", "builtin-wrong-arity"),
    ("int()", "builtin-wrong-arity"),
    ("timestamp('2009-02-13T23:31:30Z').getFullYear()", "accessor"),
    ("timestamp('2009-02-13T23:31:30Z').getDayOfWeek('-08:00')", "accessor"),
    ("duration('1h').getMinutes()", "accessor"),
    ("timestamp('2009-02-13T23:31:30Z') + duration('1s')", "time-arith"),
    ("duration('1s') + timestamp('2009-02-13T23:31:30Z')", "time-arith"),
    ("timestamp('2009-02-13T23:31:30Z') - timestamp('2009-02-13T23:31:29Z')", "time-arith"),
    ("'abc'.matches('a.c')", "matches"),
    ("matches('abc', 'a.c')", "matches"),
    ("'abc'.matches('(')", "matches-invalid"),
    ("1 ? 2 : 3", "cond-nonbool"),
    ("1 && true", "logic-nonbool"),
    ("true ? 1 : 'a'", "cond-mixed"),
    ("b'abc' + b'd'", "bytes-concat"),
    ("[1] + [2]", "list-concat"),
    ("'a' + 'b'", "string-concat"),
    ("1.0 + 2.0", "double-add"),
    ("1 + 2u", "mixed-arith"),
    ("1 == 1u", "mixed-eq"),
    ("1 == 1.0", "mixed-eq"),
    ("[1] == [1u]", "mixed-eq"),
    ("{'a': 1} == {'a': 1}", "map-eq"),
    ("{'a': 1}['a']", "map-index"),
    ("{1: 2}[1]", "map-index"),
    ("{true: 2}[true]", "map-index"),
    ("{1u: 2}[1u]", "map-index"),
    ("{1.5: 2}", "map-bad-key"),
    ("{[1]: 2}", "map-bad-key"),
    ("{null: 2}", "map-bad-key"),
    ("{1: 2, 1: 3}", "map-dup-key"),
    ("[1, 2, 3][1]", "list-index"),
    ("[1, 2, 3][1u]", "list-index-uint"),
    ("[1, 2, 3][1.0]", "list-index-double"),
    ("[1, 2, 3][-1]", "list-index-negative"),
    ("'abc'[1]", "string-index"),
    ("bytes('abc')", "conv"),
    ("string(b'abc')", "conv"),
    ("string(b'\\xff')", "conv-invalid-utf8"),
    ("int('12')", "conv"),
    ("int(1.9)", "conv"),
    ("uint(-1)", "conv-range"),
    ("int(18446744073709551615u)", "conv-range"),
    ("double('1.5')", "conv"),
    ("string(1.5)", "conv"),
    ("string(true)", "conv"),
    ("bool('true')", "conv"),
    ("list", "type-ident"),
    ("int", "type-ident"),
    ("type(1) == int", "type-eq"),
    ("null_type", "type-ident"),
]


# every macro x every way its body / range can fail (plain error, error inside ||, &&, ?:, a nested macro, has(), a failing
# element only late in the list, a failing range): deterministic, so that detection does not depend on what the generators draw
MACRO_ERROR_FORMS = [
    "{r}.{m}(x, {e})", "{r}.{m}(x, {e} || false)", "{r}.{m}(x, false || {e})", "{r}.{m}(x, {e} && true)", "{r}.{m}(x, x > 1 && {e})", "{r}.{m}(x, x > 1 ? {e} : true)",
    "{r}.{m}(x, {e} ? true : false)", "{r}.{m}(x, [x].exists(y, {e}))", "{r}.{m}(x, [x].all(y, {e}))", "{r}.{m}(x, x == 3 ? {e} : x > 1)", "{r}.{m}(x, x == 1 ? {e} : x > 1)",
    "{r}.{m}(x, {e}) || true", "true || {r}.{m}(x, {e})", "false && {r}.{m}(x, {e})", "{r}.{m}(x, x > 0)[0] == 1 || {e}", "({e2}).{m}(x, true)", "[{r}.{m}(x, {e})]", "size({r}.{m}(x, {e} || false))",
]
for _m in ("map", "filter", "exists_one", "all", "exists"):
    for _f in MACRO_ERROR_FORMS:
        for _e in ("[][0]", "1 / 0 > 0", "{}.k", "nope"):
            if _m in ("all", "exists", "exists_one") and ("[0] == 1" in _f or "size(" in _f):
                continue
            try:
                SPECIALS.append((_f.format(r="[1, 2, 3]", m=_m, e=_e, e2="[1, 2][5]"), "macro-error-form"))
            except (KeyError, IndexError):
                pass


# every Python exception class an evaluation can raise inside an ABSORBING position (the interpreter maps them rule by rule,
# transpiled code through result()'s table): deterministic matrix
ERROR_EXPRS = [
    "[][0] > 0", "1 / 0 > 0", "{}.k > 0", "nope > 0", "int(1.0e308 * 10.0) > 0", "uint(-1.0e308 * 10.0) > 0u", "timestamp('9999-12-31T23:59:59Z') + duration('48h') > timestamp('2000-01-01T00:00:00Z')",
    "timestamp('0001-01-01T00:00:00Z') - duration('48h') < timestamp('2000-01-01T00:00:00Z')", "int('x') > 0", "uint(-1) > 0u", "9223372036854775807 + 1 > 0", "1 + 'a' > 0", "'a'.size(1) > 0", "1.5.startsWith('a')",
    "timestamp('x') > timestamp('2000-01-01T00:00:00Z')", "string(b'\\xff') == 'a'", "'a'.matches('(')", "duration('1y') > duration('1s')", "[1, 2][5] > 0", "{'a': 1}['b'] > 0", "1 % 0 > 0", "-(-9223372036854775807 - 1) > 0",
    "timestamp('2000-01-01T00:00:00Z').getHours('Nowhere/City') > 0", "double('1.2.3') > 0.0", "bytes('a')[0] > 0", "[1].map(x, 1 / 0)[0] > 0", "has({}.a.b)", "type(1)(2) == 1", "dyn(1) + dyn('a') > 0",
]
ABSORBING_FORMS = [
    "({e}) || true", "true || ({e})", "false && ({e})", "({e}) && false", "true ? 1 : (({e}) ? 1 : 2)", "false ? (({e}) ? 1 : 2) : 1", "[1].exists(x, ({e}) || true)", "[1, 2].all(x, x == 5 && ({e}))",
    "[1, 2].exists(x, x == 2 || ({e}))", "({e}) || ({e}) || true", "false && (({e}) || ({e}))", "[({e}) || true]", "{'k': false && ({e})}", "[1].map(x, ({e}) || true)", "({e})", "!({e})", "({e}) ? 1 : 2",
]
for _f in ABSORBING_FORMS:
    for _e in ERROR_EXPRS:
        SPECIALS.append((_f.replace("{e}", _e), "absorbing-form"))


def nontrivial(src: str, oi) -> bool:
    return oi[0] == "E" or any(tok in src for tok in ("&&", "||", "?", "has(", ".map(", ".filter(", ".all(", ".exists"))


def compare(acc, src, benv, origin, node=None, tag=None):
    """Evaluate under both runners, record, and report a violation when they differ."""
    b = MV.cel_env(benv) if benv else {}
    oi = core.api_eval("I", src, b)
    acc.hook("evaluate:I")
    oc = core.api_eval("C", src, b)
    acc.hook("evaluate:C")
    acc.evaluations += 2
    acc.cell(origin, diag.oclass(oi).split("@")[0], "agree" if oi == oc else "differ")
    if nontrivial(src, oi):
        acc.nt([src, sorted(benv) if benv else []])
    if oi[0] == "X":
        acc.hook("interpreter-nonCEL-exception(skipped)")
        return True
    if oi == oc:
        return True
    # ---- localise
    slug = None
    detail = ""
    if node is not None:

        def out_of(n, r, extra=None):
            bb = dict(b, **extra) if extra else b
            return core.api_eval(r, lang.to_text(n), bb)

        def fails(n, extra):
            a = out_of(n, "I", extra)
            return a[0] != "X" and a != out_of(n, "C", extra)

        def elements(recv, extra):
            o = core.api_eval("I", lang.to_text(recv), dict(b, **extra) if extra else b, raw=True)
            if o[0] != "V":
                return None
            v = o[-1]
            return list(v)[:2] if isinstance(v, (list, dict, str, bytes)) else None

        try:
            m, ex_b = diag.localize_scoped(node, fails, elements)
            mi, mc = out_of(m, "I", ex_b), out_of(m, "C", ex_b)
            if mi == mc or mi[0] == "X":
                m, mi, mc, ex_b = node, oi, oc, {}
            sh = diag.shape(m, lambda x: diag.oclass(out_of(x, "I", ex_b)).split("@")[0])
            slug = f"{sh} I={diag.oclass(mi)} C={diag.oclass(mc)}"
            detail = f" minimal sub-expression {lang.to_text(m)!r}" + (f" with {sorted(ex_b)} bound to macro elements" if ex_b else "")
        except Exception as ex:  # localisation is best effort
            detail = f" (localisation failed: {type(ex).__name__})"
    elif tag is not None:
        slug = f"text:{tag} I={diag.oclass(oi)} C={diag.oclass(oc)}"
    acc.violation(
        slug,
        f"runners disagree on {src[:120]!r}: interpreted={diag.oclass(oi)} compiled={diag.oclass(oc)}{detail}",
        {"src": src, "bindings": MV.enc_env(benv or {}), "interpreted": oi, "compiled": oc, "origin": origin},
    )
    return False


def reuse(acc, src, benv_seq, origin, node=None, declare=False):
    """One program per runner, evaluated against a sequence of activations (the documented way to
    use a program): the two runners must agree at every step, not only on a program's first evaluation.
    With declare=True the environment declares every name bound anywhere in the sequence (plain, non-dotted
    names, with the CEL type of their first binding) -- declarations live in the program's base activation."""
    c = core.celpy()
    progs = {}
    ann = None
    if declare:
        ann = {}
        for benv in benv_seq:
            for name, mvv in (benv or {}).items():
                cls = getattr(c.celtypes, MV.CLASS_OF.get(mvv[0], ""), None)
                if cls is not None and "." not in name and name not in ann:
                    ann[name] = cls
    for r in "IC":
        try:
            env = c.Environment(annotations=dict(ann) if ann else None, runner_class=core.runner_class(r))
            progs[r] = env.program(env.compile(src))
        except Exception:
            return

    def ev(r, b):
        try:
            return ["V", core.canon(progs[r].evaluate(b))]
        except c.CELEvalError:
            return ["E"]
        except Exception as ex:
            return ["X", "evaluate", type(ex).__name__, core._left_from(ex), core._msg(ex)]

    for step, benv in enumerate(benv_seq):
        b = MV.cel_env(benv) if benv else {}
        oi, oc = ev("I", b), ev("C", b)
        acc.hook("evaluate:I")
        acc.hook("evaluate:C")
        acc.hook("program-reuse")
        acc.evaluations += 2
        agree = oi == oc or oi[0] == "X"
        acc.cell("reuse:" + origin, "step%d" % min(step, 3), diag.oclass(oi).split("@")[0], "agree" if agree else "differ")
        if step:
            acc.nt([src, "reuse", step, sorted(benv) if benv else []])
        if agree:
            continue
        fresh_i, fresh_c = core.api_eval("I", src, b, annotations=ann), core.api_eval("C", src, b, annotations=ann)
        if fresh_i == fresh_c:
            stale = "compiled" if fresh_c != oc else "interpreted"
            names_before = set().union(*[set(x or {}) for x in benv_seq[:step]]) if step else set()
            gone = sorted(names_before - set(benv or {}))
            acc.violation(
                f"program-reuse {stale}-program-outcome-depends-on-earlier-evaluations earlier-only-names={'yes' if gone else 'no'} I={diag.oclass(oi).split('@')[0]} C={diag.oclass(oc).split('@')[0]}",
                f"runners disagree at evaluation #{step + 1} of one program for {src[:100]!r}: interpreted={diag.oclass(oi)} compiled={diag.oclass(oc)}; fresh programs agree ({diag.oclass(fresh_i)}); bindings now {sorted(benv or {})}, names bound only earlier {gone}",
                {"src": src, "sequence": [MV.enc_env(x or {}) for x in benv_seq[: step + 1]], "origin": origin, "kind": "reuse", "declare": declare},
            )
        else:
            if node is None:
                try:
                    node = larkconv.conv(c.CELParser(tree_class=c.TranspilerTree).parse(src))
                except Exception:
                    node = None
            compare(acc, src, benv, origin, node=node, tag="reuse")
        return


def binding_sequences(rnd, benv):
    """Activations for one program: all names; one name dropped (another, unused, name keeps the activation non-empty); all again."""
    names = sorted(benv)
    seq = [dict(benv)]
    for nm in rnd.sample(names, min(len(names), 2)):
        d = {k: v for k, v in benv.items() if k != nm}
        d["unused_%d" % rnd.randint(0, 9)] = ("int", 1)
        seq.append(d)
    seq.append(dict(benv))
    if rnd.random() < 0.3:
        seq.append({})
        seq.append({names[0]: benv[names[0]]})
    return seq


REUSE_FIXED = [
    ("a.b", [{"a.b": ("int", 1)}, {"a": ("map", ((("string", "b"), ("int", 2)),))}, {"a.b": ("int", 3), "a": ("map", ((("string", "b"), ("int", 4)),))}, {"a": ("map", ((("string", "c"), ("int", 5)),))}]),
    ("a.b", [{"a": ("map", ((("string", "b"), ("int", 2)),))}, {"a.b": ("int", 1)}, {"z": ("int", 0)}]),
    ("x || y", [{"x": ("bool", False), "y": ("bool", True)}, {"x": ("bool", False), "z": ("int", 1)}, {"y": ("bool", True), "z": ("int", 1)}]),
    ("x ? y : z", [{"x": ("bool", True), "y": ("int", 1), "z": ("int", 2)}, {"x": ("bool", False), "y": ("int", 1)}, {"x": ("bool", True), "z": ("int", 1)}]),
    ("[1, 2].map(i, i + k)", [{"k": ("int", 10)}, {"j": ("int", 10)}, {"i": ("int", 5), "k": ("int", 1)}]),
    ("has(m.f) ? 1 : 2", [{"m": ("map", ((("string", "f"), ("int", 1)),))}, {"m": ("map", ())}, {"n": ("int", 1)}]),
    ("x", [{"x": ("int", 1)}, {"x": ("string", "s")}, {"y": ("int", 1)}, {"x": ("null", None)}]),
]


def run(ctx):
    acc = ctx.acc
    rnd = ctx.rnd
    c = core.celpy()
    import celpy.celparser as cp

    parser = c.CELParser(tree_class=c.TranspilerTree)

    # 1. specials (every worker takes a slice)
    for i, (src, tag) in enumerate(SPECIALS):
        if ctx.mine(i):
            for benv in ({}, {"x": ("map", ((("string", "get"), ("int", 1)), (("string", "keys"), ("int", 2)), (("string", "class"), ("int", 3)), (("string", "nul"), ("null", None)), (("string", "y"), ("map", ((("string", "z"), ("int", 9)),))))), "class": ("int", 5), "ex_0": ("int", 6), "CEL": ("int", 7), "match": ("int", 8), "identifiers": ("int", 9), "functions": ("int", 10), "get": ("int", 11), "package": ("string", "p"), "None": ("int", 1), "True": ("int", 1), "activation": ("int", 1), "base_activation": ("int", 2), "celpy": ("int", 3), "operator": ("int", 4), "clone": ("int", 5), "resolve_variable": ("int", 6), "lambda": ("int", 7), "not": ("int", 8)}):
                try:
                    node = larkconv.conv(parser.parse(src))
                except Exception:
                    node = None
                compare(acc, src, benv, "special", node=node, tag=tag)
                acc.sample({"src": src, "origin": "special"}, limit=2)

    # 2. corpus
    items = corpus.load()
    for i, it in enumerate(items):
        if not ctx.mine(i):
            continue
        try:
            tree = parser.parse(it["expr"])
        except Exception:
            continue
        if not corpus.builtin_only(tree):
            acc.hook("corpus-skipped-non-builtin")
            continue
        acc.hook("corpus")
        try:
            node = larkconv.conv(tree)
            src = it["expr"]
            # the decomposition re-prints; only use it when the re-print parses to the same thing
        except larkconv.Unsupported:
            node = None
        compare(acc, it["expr"], {}, "corpus", node=node, tag="corpus:" + it["feature"])
    acc.sample({"src": items[0]["expr"], "origin": "corpus"}, limit=3)

    # 2b. one program, several activations
    for i, (src, seq) in enumerate(REUSE_FIXED):
        if ctx.mine(i):
            reuse(acc, src, seq, "reuse-fixed")
            reuse(acc, src, seq, "reuse-fixed-declared", declare=True)

    # 3. generated
    n = ctx.scale(9000, 480000)
    for j in range(n):
        if ctx.expired():
            break
        mode = rnd.random()
        if mode < 0.45:
            g = tgen.TGen(rnd, small=rnd.random() < 0.6, maxdepth=rnd.randint(1, 4), errors=0.05)
            origin = "typed"
        elif mode < 0.8:
            g = tgen.TGen(rnd, small=rnd.random() < 0.6, maxdepth=rnd.randint(1, 4), errors=0.12, chaos=0.0)
            origin = "typed+errors"
        else:
            g = tgen.TGen(rnd, small=rnd.random() < 0.6, maxdepth=rnd.randint(1, 4), errors=0.08, chaos=0.15)
            origin = "ill-typed"
        t = "bool" if rnd.random() < 0.4 else g.rand_type()
        node = g.gen(t)
        try:
            src = lang.to_text(node)
        except ValueError:
            continue
        benv = g.model_env()
        compare(acc, src, benv, origin, node=node)
        if benv and j % 4 == 0:
            seq = binding_sequences(rnd, benv)
            if rnd.random() < 0.6:
                # the same names with other values, then the first values again
                seq = [dict(benv), g.redraw_env(), g.redraw_env()] + seq
            reuse(acc, src, seq, origin, node=node, declare=rnd.random() < 0.5)
        if j % 997 == 0:
            acc.sample({"src": src, "bindings": MV.enc_env(benv), "origin": origin})
    acc.extra["generated_cases"] = n


def replay(case):
    if case.get("kind") == "reuse":
        core.celpy()
        acc = core.Acc()
        reuse(acc, case["src"], [MV.dec_env(x) for x in case["sequence"]], case.get("origin", "replay"), declare=case.get("declare", False))
        return not acc.violations, "\n".join(v["what"] for v in acc.violations) or "held"
    benv = MV.dec_env(case.get("bindings", {}))
    b = MV.cel_env(benv)
    oi = core.api_eval("I", case["src"], b)
    oc = core.api_eval("C", case["src"], b)
    text = f"source: {case['src']}\nbindings: {case.get('bindings')}\ninterpreted: {oi}\ncompiled:    {oc}"
    return (oi[0] == "X" or oi == oc), text
