"""C19  Translated value clauses keep their operator, operands and literals."""

from __future__ import annotations

import contextlib
import io
import json
import sys

from .. import civil, core, diag, hooks, mv as MV
from .c17 import glob_match, normalize_model

ID = "C19"
READY = True
LEVEL = "exploration"
WORKERS = {"quick": 8, "thorough": 16}
BUDGET = {"quick": 150, "thorough": 420}
MIN_NONTRIVIAL = {"quick": 2000, "thorough": 40000}
REQUIRED_HOOKS = ["relation", "q-contract", "duration-contract", "table-entry", "evaluate:I", "evaluate:C", "xlate.c7n_to_cel.C7N_Rewriter.q"]
RULE = (
    "type: value clauses for every op (eq/equal, ne/not-equal, gt/greater-than, ge/gte, lt/less-than, le/lte, in, ni/not-in, contains, glob, intersect, "
    "difference, present/absent) x value kind (string, int, bool, list) x value_type (none, size, integer, normalize, swap, unique_size, age, expiration) are "
    "translated by the real rewriter and evaluated (both runners, c7nlib.FUNCTIONS) on resources with r[k] at v-1, v, v+1 / element present-absent / "
    "equal-prefix strings; the decision must equal the named relation applied to r[k] and v directly. A recording wrapper on C7N_Rewriter.q checks the contract "
    "evaluate(q(s)) == s for every string the rewriters quote (values, keys, tag names, URLs) and for generated strings with both quotes, backslashes, control "
    "and non-ASCII characters; the duration helpers must satisfy duration(evaluate(out)) == int(days*86400) s / int(seconds) s for counts 0, 1, 59, 60, 86399, "
    "86400, fractional days; every key of the translator's lookup tables (captured from the rewriters' local variables with sys.settrace) is pushed through "
    "its rewriter and the emitted text must parse. distinct_nontrivial = distinct (op, value kind, value_type, resource side) cases, distinct strings, counts and table entries."
)
ASSUMPTIONS = [
    "resources that lack the key are generated but not asserted (Custodian treats the attribute as null, the emitted CEL indexes the map)",
    "value_type transforms are asserted by their Custodian meaning: size=len, integer=int(), normalize=strip+lower, swap=operands exchanged, unique_size=len(set), age = days since the timestamp, expiration = days until the timestamp",
]


class H:
    def __init__(self, acc):
        self.acc = acc
        c = core.celpy()
        import celpy.adapter as ad
        import celpy.c7nlib as lib
        import xlate.c7n_to_cel as x

        self.c, self.lib, self.x, self.R = c, lib, x, x.C7N_Rewriter
        self.to_cel = ad.json_to_cel
        self.progs = {}
        self.parser = c.CELParser(tree_class=c.TranspilerTree)
        self.qlog = []

    def rewrite(self, flt, rtype="ec2"):
        with contextlib.redirect_stdout(io.StringIO()):
            return self.R.primitive(rtype, flt)

    def evaluate(self, r, text, binds):
        c = self.c
        self.acc.hook("evaluate:" + r)
        self.acc.evaluations += 1
        key = (r, text)
        prog = self.progs.get(key)
        if prog is None:
            try:
                env = c.Environment(annotations=dict(self.lib.DECLARATIONS), runner_class=core.runner_class(r))
                prog = env.program(env.compile(text), functions=self.lib.FUNCTIONS)
            except c.CELParseError as ex:
                return ["P", ex.line, ex.column]
            except Exception as ex:
                return ["X", "program", type(ex).__name__, core._left_from(ex), core._msg(ex)]
            if len(self.progs) > 3000:
                self.progs.clear()
            self.progs[key] = prog
        try:
            return ["V", core.canon(prog.evaluate(binds))]
        except c.CELEvalError:
            return ["E"]
        except Exception as ex:
            return ["X", "evaluate", type(ex).__name__, core._left_from(ex), core._msg(ex)]


NOW_US = (civil.days_from_civil(2021, 6, 16) * 86400 + 12 * 3600) * 10**6


# ---------------------------------------------------------------- (A) relations
REL = {
    "eq": lambda r, v: r == v, "equal": lambda r, v: r == v, "ne": lambda r, v: r != v, "not-equal": lambda r, v: r != v,
    "gt": lambda r, v: r > v, "greater-than": lambda r, v: r > v, "ge": lambda r, v: r >= v, "gte": lambda r, v: r >= v,
    "lt": lambda r, v: r < v, "less-than": lambda r, v: r < v, "le": lambda r, v: r <= v, "lte": lambda r, v: r <= v,
    "in": lambda r, v: r in v, "ni": lambda r, v: r not in v, "not-in": lambda r, v: r not in v,
    "contains": lambda r, v: v in r, "glob": lambda r, v: glob_match(r, v),
    "intersect": lambda r, v: bool(set(r) & set(v)), "difference": lambda r, v: bool(set(r) - set(v)),
}
ORDER_OPS = ["eq", "equal", "ne", "not-equal", "gt", "greater-than", "ge", "gte", "lt", "less-than", "le", "lte"]


def relation_cases(rnd):
    """Yield (label, filter, resource value r, expected decision) -- the key is always 'k'."""
    # ordered comparisons on ints and strings, resource on both sides of the boundary
    for op in ORDER_OPS:
        v = rnd.choice([0, 1, 5, 100, -3])
        for r in (v - 1, v, v + 1):
            yield (f"{op} int", {"type": "value", "key": "k", "op": op, "value": v}, r, REL[op](r, v), "below" if r < v else ("at" if r == v else "above"))
        # the same number as a float, in the same process (a policy file may say 5 in one clause and 5.0 in another)
        fv = float(v)
        for r in (fv - 0.5, fv, fv + 0.5):
            yield (f"{op} float", {"type": "value", "key": "k", "op": op, "value": fv}, r, REL[op](r, fv), "below" if r < fv else ("at" if r == fv else "above"))
        for r in (v - 1, v, v + 1):
            yield (f"{op} int-again", {"type": "value", "key": "k", "op": op, "value": v}, r, REL[op](r, v), "below" if r < v else ("at" if r == v else "above"))
        sv = rnd.choice(["m", "abc", "b", "Z", "ab"])
        for r in (sv[:-1], sv, sv + "a", "a", "zz"):
            yield (f"{op} string", {"type": "value", "key": "k", "op": op, "value": sv}, r, REL[op](r, sv), "below" if r < sv else ("at" if r == sv else "above"))
    # bool values
    for op in ("eq", "equal", "ne", "not-equal"):
        for v in (True, False, "true", "false"):
            vb = v in (True, "true")
            for r in (True, False):
                yield (f"{op} bool", {"type": "value", "key": "k", "op": op, "value": v}, r, REL[op](r, vb), "at" if r == vb else "other")
    # membership
    pool = ["a", "b", "c", "d"]
    for op in ("in", "ni", "not-in"):
        lst = rnd.sample(pool, rnd.randint(1, 3))
        for r in pool:
            yield (f"{op} list", {"type": "value", "key": "k", "op": op, "value": lst}, r, REL[op](r, lst), "present" if r in lst else "absent")
        nums = [1, 2, 3]
        for r in (2, 5):
            yield (f"{op} int-list", {"type": "value", "key": "k", "op": op, "value": nums}, r, REL[op](r, nums), "present" if r in nums else "absent")
        # a value list mixing strings and numbers (Custodian policies do that: protocol -1 or "tcp")
        mixed = rnd.choice([[-1, "tcp"], ["tcp", -1], [22, "ssh", 443], ["a", 1, "b", 2]])
        for r in (mixed[0], mixed[-1], "udp", 5):
            yield (f"{op} mixed-list", {"type": "value", "key": "k", "op": op, "value": mixed}, r, REL[op](r, mixed), "present" if r in mixed else "absent")
    for r, v in ((["a", "b"], "a"), (["a", "b"], "z"), ([], "a"), ("hello", "ell"), ("hello", "xyz")):
        yield ("contains", {"type": "value", "key": "k", "op": "contains", "value": v}, r, REL["contains"](r, v), "present" if v in r else "absent")
    for r, v in (("abc", "a*"), ("abc", "b*"), ("abc", "a?c"), ("abc", "[a-b]bc"), ("abc", "abc"), ("abd", "ab[!d]")):
        yield ("glob", {"type": "value", "key": "k", "op": "glob", "value": v}, r, REL["glob"](r, v), "match" if glob_match(r, v) else "nomatch")
    for op in ("intersect", "difference"):
        for r, v in ((["a", "b"], ["b", "c"]), (["a"], ["b"]), ([], ["a"]), (["a", "b"], ["a", "b"]), (["a", "b", "c"], ["a"])):
            yield (f"{op} list", {"type": "value", "key": "k", "op": op, "value": v}, r, REL[op](r, v), "overlap" if set(r) & set(v) else "disjoint")
    # present / absent
    for val, rs in (("present", [("x", True), (None, False), (0, None), ("", None)]), ("absent", [("x", False), (None, True)]), ("not-null", [("x", True), (None, False)]), ("empty", [(None, True), ("x", False)])):
        for r, exp in rs:
            if exp is not None:
                yield (val, {"type": "value", "key": "k", "value": val}, r, exp, "null" if r is None else "value")
    # value_type transforms
    for op in ("eq", "gt", "lt", "ge", "le", "ne"):
        n = rnd.choice([1, 2, 3])
        for ln in (n - 1, n, n + 1):
            r = ["x"] * ln
            yield (f"{op} size", {"type": "value", "key": "k", "op": op, "value": n, "value_type": "size"}, r, REL[op](len(r), n), "below" if ln < n else ("at" if ln == n else "above"))
            ru = ["x", "x"] + [f"u{i}" for i in range(ln - 1)] if ln >= 1 else []
            yield (f"{op} unique_size", {"type": "value", "key": "k", "op": op, "value": n, "value_type": "unique_size"}, ru, REL[op](len(set(ru)), n), "dups")
        for rv in (n - 1, n, n + 1):
            yield (f"{op} integer", {"type": "value", "key": "k", "op": op, "value": n, "value_type": "integer"}, str(rv), REL[op](rv, n), "below" if rv < n else ("at" if rv == n else "above"))
        yield (f"{op} swap", {"type": "value", "key": "k", "op": op, "value": 5, "value_type": "swap"}, 7, REL[op](5, 7), "swap")
        yield (f"{op} swap", {"type": "value", "key": "k", "op": op, "value": 5, "value_type": "swap"}, 3, REL[op](5, 3), "swap")
        yield (f"{op} swap", {"type": "value", "key": "k", "op": op, "value": 5, "value_type": "swap"}, 5, REL[op](5, 5), "swap")
    for op in ("eq", "ne", "in"):
        for r in ("  ABC ", "abc", "abd", "\tAbC\n"):
            v = "abc" if op != "in" else ["abc", "x"]
            yield (f"{op} normalize", {"type": "value", "key": "k", "op": op, "value": v, "value_type": "normalize"}, r, REL[op](normalize_model(r), v), "padded" if r != r.strip() else "plain")
        # characters whose lower case and full case folding differ (sharp s, final sigma, ligatures, long s): Custodian lower-cases
        for r in (" Stra\u00dfe ", "\u03a3\u038a\u03a3\u03a5\u03a6\u039f\u03a3 ", "\ufb01n", "\u017f", "\u00b5M", "\u1e9e", "\u00c9COLE "):
            for folded in (r.strip().lower(), r.strip().casefold()):
                v = folded if op != "in" else [folded, "x"]
                yield (f"{op} normalize", {"type": "value", "key": "k", "op": op, "value": v, "value_type": "normalize"}, r, REL[op](r.strip().lower(), v), "case-folding")
    # age / expiration: days since / until the resource timestamp
    for op in ("gt", "lt", "ge", "le", "greater-than", "less-than", "gte", "lte"):
        days = rnd.choice([1, 7, 30])
        for delta_s in (-3600, 0, 3600):
            ts_us = NOW_US - days * 86400 * 10**6 + delta_s * 10**6  # age = days - delta
            age_days_num, age_days_den = NOW_US - ts_us, 86400 * 10**6
            # Custodian: age(r) op days   <=>   (now - r) op days*86400 s
            exp = REL[op](NOW_US - ts_us, days * 86400 * 10**6)
            yield (f"{op} age", {"type": "value", "key": "k", "op": op, "value": days, "value_type": "age"}, MV.ts_text(ts_us), exp, "older" if delta_s < 0 else ("exact" if delta_s == 0 else "younger"))
            ts2 = NOW_US + days * 86400 * 10**6 + delta_s * 10**6
            exp2 = REL[op](ts2 - NOW_US, days * 86400 * 10**6)
            yield (f"{op} expiration", {"type": "value", "key": "k", "op": op, "value": days, "value_type": "expiration"}, MV.ts_text(ts2), exp2, "sooner" if delta_s < 0 else ("exact" if delta_s == 0 else "later"))


def check_relations(h, rnd, reps):
    acc = h.acc
    now = MV.to_cel(("ts", NOW_US))
    for _ in range(reps):
        for label, flt, r, exp, side in relation_cases(rnd):
            acc.hook("relation")
            # the key in its three spellings: attribute, nested attribute, tag
            kf = rnd.choice(["k", "k", "k", "a.b", "tag:Team"])
            flt = dict(flt, key=kf)
            doc = {"k": {"k": r, "other": 1}, "a.b": {"a": {"b": r, "c": 0}, "other": 1}, "tag:Team": {"Tags": [{"Key": "Other", "Value": "zz"}, {"Key": "Team", "Value": r}, {"Key": "Team", "Value": "later"}], "other": 1}}[kf]
            label = label if kf == "k" else f"{label} key={'nested' if kf == 'a.b' else 'tag'}"
            related_first = rnd.random() < 0.25
            if related_first:
                # the same key text translated first by a clause type that resolves it against another variable
                acc.hook("related-clause-first")
                try:
                    h.rewrite({"type": rnd.choice(["security-group", "subnet", "vpc"]), "key": kf, "op": "eq", "value": "zz"})
                except Exception:
                    pass
            try:
                text = h.rewrite(flt)
            except Exception as ex:
                acc.violation(f"rewrite raises {type(ex).__name__} {label}", f"primitive({flt}) raised {type(ex).__name__}: {core._msg(ex)}", {"kind": "relation", "filter": flt, "r": r})
                continue
            acc.nt([label, side, json.dumps(flt, sort_keys=True), json.dumps(r)])
            binds = {"resource": h.to_cel(doc), "now": now}
            for rn in "IC":
                out = h.evaluate(rn, text, binds)
                got = bool(out[1][1]) if out[0] == "V" and out[1][0] in ("BoolType", "bool") else None
                acc.cell(label, side, rn, "ok" if got == exp else "differ")
                if got != exp:
                    acc.violation(
                        f"{rn} relation {label} resource-{side} obs={got if got is not None else diag.oclass(out).split('@')[0]} exp={exp}",
                        f"{'interpreted' if rn == 'I' else 'compiled'}: {flt} -> {text!r} on r[k]={r!r} gave {core.jkey(out)[:60]}, the relation gives {exp}",
                        {"kind": "relation", "filter": flt, "r": r, "doc": doc, "runner": rn, "expected": exp},
                    )
            # a resource lacking the key: recorded, not asserted
            out = h.evaluate("I", text, {"resource": h.to_cel({"other": 1}), "now": now})
            acc.cell(label, "key-missing(not asserted)", diag.oclass(out).split("@")[0])


# ---------------------------------------------------------------- (B) q contract
def char_classes(s):
    cl = set()
    for ch in s:
        o = ord(ch)
        cl.add("dquote" if ch == '"' else "squote" if ch == "'" else "backslash" if ch == "\\" else "newline" if ch in "\n\r" else "control" if o < 0x20 or o == 0x7F else "ascii" if o < 0x80 else "non-ascii")
    return sorted(cl) or ["empty"]


class QMonitor:
    def __init__(self, h):
        self.h = h
        self.pending = []

    def install(self):
        R = self.h.R
        orig = R.q
        mon = self

        def q(text, quote='"'):
            h.acc.hook("xlate.c7n_to_cel.C7N_Rewriter.q") if False else None
            res = orig(text, quote)
            mon.h.acc.hook("xlate.c7n_to_cel.C7N_Rewriter.q")
            mon.pending.append((text, quote, res))
            return res

        h = self.h
        q.__name__ = "q"
        self.orig = orig
        R.q = staticmethod(q)

    def remove(self):
        self.h.R.q = staticmethod(self.orig)

    def drain(self, origin):
        h = self.h
        acc = h.acc
        items, self.pending = self.pending, []
        for text, quote, res in items:
            want = "" if text is None else text
            acc.hook("q-contract")
            acc.nt(["q", want, quote])
            for rn in "IC":
                out = h.evaluate(rn, res, {})
                ok = out[0] == "V" and out[1][0] in ("StringType", "str") and out[1][1] == want
                cl = char_classes(want)
                acc.cell("q", origin, rn, "+".join(cl)[:40], "ok" if ok else "differ")
                if not ok:
                    bad = [c for c in cl if c in ("backslash", "newline", "control", "dquote", "squote")] or cl
                    acc.violation(
                        f"{rn} q-literal {'+'.join(bad)} quote={'double' if quote == chr(34) else 'single'} obs={diag.oclass(out).split('@')[0]}",
                        f"q({want!r}, {quote!r}) = {res!r} evaluates to {core.jkey(out)[:80]} (from {origin})",
                        {"kind": "q", "text": want, "quote": quote},
                    )


def check_strings(h, qm, rnd, n):
    R = h.R
    fixed = ["", "plain", 'say "hi"', "it's", "back\\slash", "tab\there", "line\nbreak", "cr\rhere", "nul\x00", "é\U0001f431", "a\\\"b", "${x}", "{account_id}", "http://h/p?q=1&r='x'", "ends with \\", "\\n literally", "'\"'\"", "\x7f"]
    for i in range(n):
        s = fixed[i] if i < len(fixed) else MV.rand_string(rnd, 10)
        R.q(s)
        R.q(s, "'")
        qm.drain("direct")
        # through the rewriters: value, key, tag name, URL
        for flt in (
            {"type": "value", "key": "k", "op": "eq", "value": s},
            {"type": "value", "key": "tag:" + s, "op": "eq", "value": "v"},
            {"type": "value", "key": "k", "op": "in", "value_from": {"url": "s3://bucket/" + s, "format": "json"}},
            {"type": "marked-for-op", "op": "stop", "tag": s},
            {"type": "event", "key": "detail.x", "op": "eq", "value": s},
        ):
            try:
                h.rewrite(flt)
            except Exception:
                pass
            qm.drain(flt["type"])
        # the value itself must survive end to end: resource[k] == s must match exactly when r[k] is s
        flt = {"type": "value", "key": "k", "op": "eq", "value": s}
        if s not in ("true", "false", "present", "absent"):
            try:
                text = h.rewrite(flt)
                for rn in "IC":
                    for r, exp in ((s, True), (s + "x", False)):
                        out = h.evaluate(rn, text, {"resource": h.to_cel({"k": r})})
                        got = bool(out[1][1]) if out[0] == "V" and out[1][0] in ("BoolType", "bool") else None
                        if got != exp:
                            bad = [c for c in char_classes(s) if c in ("backslash", "newline", "control", "dquote", "squote")] or char_classes(s)
                            h.acc.violation(f"{rn} value-literal-end-to-end {'+'.join(bad)} obs={got if got is not None else diag.oclass(out).split('@')[0]}", f"value {s!r} -> {text!r} on r[k]={r!r} gave {core.jkey(out)[:60]}, expected {exp}", {"kind": "q", "text": s, "quote": '"'})
            except Exception:
                pass
            qm.pending = []
        # list values are emitted through Python's repr
        lst = [s, "z"]
        flt = {"type": "value", "key": "k", "op": "in", "value": lst}
        try:
            text = h.rewrite(flt)
            qm.pending = []
            for rn in "IC":
                out = h.evaluate(rn, text, {"resource": h.to_cel({"k": s})})
                got = bool(out[1][1]) if out[0] == "V" and out[1][0] in ("BoolType", "bool") else None
                h.acc.cell("list-literal", rn, "+".join(char_classes(s))[:40], "ok" if got is True else "differ")
                if got is not True:
                    bad = [c for c in char_classes(s) if c in ("backslash", "newline", "control", "dquote", "squote", "non-ascii")] or char_classes(s)
                    h.acc.violation(f"{rn} list-value-literal {'+'.join(bad)} obs={got if got is not None else diag.oclass(out).split('@')[0]}", f"value list {lst!r} -> {text!r}: r[k]={s!r} should be 'in' it, got {core.jkey(out)[:60]}", {"kind": "q", "text": s, "quote": "list"})
        except Exception:
            pass


# ---------------------------------------------------------------- (C) durations
def check_durations(h, rnd, n):
    acc = h.acc
    R = h.R
    counts_s = [0, 1, 59, 60, 61, 3599, 3600, 86399, 86400, 86401, 90061, 31536000, 0.5, 59.9, "120", 1e6]
    counts_d = [0, 1, 0.5, 0.084, 0.011, 2, 7, 30, 365, 1.5, "3", 0.00001, 1 / 86400, 1000]
    cases = [("seconds_to_duration", v) for v in counts_s] + [("age_to_duration", v) for v in counts_d]
    for _ in range(n):
        cases.append(("seconds_to_duration", rnd.choice([rnd.randint(0, 10**7), rnd.random() * 1000])))
        cases.append(("age_to_duration", rnd.choice([rnd.randint(0, 400), round(rnd.random() * 10, 3)])))
    for fn, v in cases:
        acc.hook("duration-contract")
        acc.nt([fn, str(v)])
        want_s = int(float(v)) if fn == "seconds_to_duration" else int(float(v) * 24 * 60 * 60)
        try:
            lit = getattr(R, fn)(v)
        except Exception as ex:
            acc.violation(f"{fn} raises {type(ex).__name__}", f"{fn}({v!r}) raised {type(ex).__name__}", {"kind": "duration", "fn": fn, "v": str(v)})
            continue
        for rn in "IC":
            out = h.evaluate(rn, f"duration({lit})", {})
            ok = out[0] == "V" and out[1][0] in ("DurationType", "timedelta") and int(out[1][1]) == want_s * 10**6
            acc.cell(fn, rn, "zero" if want_s == 0 else ("sub-minute" if want_s < 60 else ("sub-day" if want_s < 86400 else "days")), "ok" if ok else "differ")
            if not ok:
                acc.violation(
                    f"{rn} {fn} {'zero' if want_s == 0 else 'nonzero'} obs={diag.oclass(out).split('@')[0]}",
                    f"{fn}({v!r}) = {lit!r}; duration({lit}) gave {core.jkey(out)[:60]}, expected {want_s} s",
                    {"kind": "duration", "fn": fn, "v": str(v)},
                )


# ---------------------------------------------------------------- (D) lookup tables
def capture_tables(h):
    """Read the rewriters' local lookup tables (dict locals named *_map) with sys.settrace."""
    tables = {}
    fname = h.x.__file__

    def tracer(frame, event, arg):
        if frame.f_code.co_filename != fname:
            return None

        def local(frame, event, arg):
            if event in ("return", "exception"):
                for name, val in frame.f_locals.items():
                    if name in ("attribute_map", "resource_type_map") and isinstance(val, dict) and val:
                        tables.setdefault((frame.f_code.co_name, name), dict(val))
            return local

        return local

    generic = {"key": "Name", "value": "x", "op": "eq", "days": 3, "tag": "t", "count": 2, "state": True, "name": "m", "enabled": True, "compare": ["resource", "subnet"], "match": "equal"}
    rewriter_types = ["security-group", "subnet", "vpc", "age", "kms-key", "kms-alias", "cross-account", "used", "unused", "is-logging", "is-not-logging", "credential", "image", "image-age", "flow-logs", "network-location", "shield-enabled", "waf-enabled", "health-event", "tag-count", "metrics", "onhour", "offhour", "marked-for-op", "event"]
    old = sys.gettrace()
    sys.settrace(tracer)
    try:
        for t in rewriter_types:
            for rt in ("no-such-resource-type", "ec2"):
                try:
                    with contextlib.redirect_stdout(io.StringIO()):
                        h.R.primitive(rt, dict(generic, type=t))
                except Exception:
                    pass
    finally:
        sys.settrace(old)
    return tables, generic


FUNC_TYPE = {
    "type_security_group_rewrite": "security-group", "type_subnet_rewrite": "subnet", "type_vpc_rewrite": "vpc", "type_age_rewrite": "age", "type_kms_key_rewrite": "kms-key",
    "cross_account_rewrite": "cross-account", "used_rewrite": "used", "unused_rewrite": "unused", "is_logging_rewrite": "is-logging", "is_not_logging_rewrite": "is-not-logging",
    "type_kms_alias_rewrite": "kms-alias", "type_credential_rewrite": "credential",
}


def check_tables(h, ctx):
    acc = h.acc
    tables, generic = capture_tables(h)
    acc.extra["tables_captured"] = len(tables)
    acc.extra["table_entries"] = sum(len(t) for t in tables.values())
    k = 0
    for (func, tname), table in sorted(tables.items()):
        ftype = FUNC_TYPE.get(func)
        if ftype is None:
            continue
        for rtype in sorted(table):
            k += 1
            if not ctx.mine(k):
                continue
            acc.hook("table-entry")
            acc.nt(["table", func, rtype])
            try:
                text = h.rewrite(dict(generic, type=ftype), rtype)
            except Exception as ex:
                acc.cell("table", func, "rewriter-raises")
                acc.violation(f"table {func} {rtype} rewriter-raises-{type(ex).__name__}", f"{func}({rtype!r}) raised {type(ex).__name__}: {core._msg(ex)}", {"kind": "table", "func": func, "rtype": rtype})
                continue
            acc.evaluations += 1
            try:
                h.parser.parse(text)
                acc.cell("table", func, "parses")
            except Exception as ex:
                acc.cell("table", func, "does-not-parse")
                acc.violation(f"table {func} {rtype} does-not-parse", f"{func}({rtype!r}) emitted {text[:140]!r} which does not parse ({type(ex).__name__})", {"kind": "table", "func": func, "rtype": rtype})
    acc.exhaustive.append("every key of every captured attribute_map / resource_type_map table")


def run(ctx):
    acc = ctx.acc
    rnd = ctx.rnd
    h = H(acc)
    qm = QMonitor(h)
    qm.install()
    check_tables(h, ctx)
    qm.pending = []
    check_relations(h, rnd, 2 if not ctx.thorough else 8)
    qm.pending = []
    check_strings(h, qm, rnd, ctx.scale(480, 24000) if ctx.worker else max(30, ctx.scale(480, 24000)))
    check_durations(h, rnd, ctx.scale(400, 20000))
    qm.remove()
    acc.sample({"filter": {"type": "value", "key": "k", "op": "le", "value": 5}, "resource_k": [4, 5, 6], "expected": [True, True, False]})
    acc.sample({"q": "say \"hi\" \\ there", "contract": "evaluate(q(s)) == s"})
    acc.sample({"age_to_duration": 0.5, "expected_seconds": 43200})


def replay(case):
    acc = core.Acc()
    h = H(acc)
    import random

    rnd = random.Random(0)
    if case["kind"] == "relation":
        text = h.rewrite(case["filter"])
        now = MV.to_cel(("ts", NOW_US))
        out = h.evaluate(case.get("runner", "I"), text, {"resource": h.to_cel(case.get("doc") or {"k": case["r"], "other": 1}), "now": now})
        got = bool(out[1][1]) if out[0] == "V" and out[1][0] in ("BoolType", "bool") else None
        return got == case.get("expected"), f"{case['filter']} -> {text!r}; r[k]={case['r']!r} -> {out}; expected {case.get('expected')}"
    if case["kind"] == "q":
        lit = h.R.q(case["text"], case["quote"] if case["quote"] in ('"', "'") else '"')
        out = h.evaluate("I", lit, {})
        return out[0] == "V" and out[1][1] == case["text"], f"q({case['text']!r}) = {lit!r} -> {out}"
    if case["kind"] == "duration":
        v = float(case["v"])
        lit = getattr(h.R, case["fn"])(v)
        out = h.evaluate("I", f"duration({lit})", {})
        want = int(v) if case["fn"] == "seconds_to_duration" else int(v * 86400)
        return out[0] == "V" and int(out[1][1]) == want * 10**6, f"{case['fn']}({v}) = {lit!r} -> {out}; expected {want} s"
    text = h.rewrite({"key": "Name", "value": "x", "op": "eq", "days": 3, "type": FUNC_TYPE[case["func"]]}, case["rtype"])
    try:
        h.parser.parse(text)
        return True, f"{text!r} parses"
    except Exception as ex:
        return False, f"{text!r} does not parse: {type(ex).__name__}"
