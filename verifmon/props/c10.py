"""C10  Type conversions round-trip and range-check."""

from __future__ import annotations

import math

from .. import core, diag, hooks, lang, mv as MV
from ..lang import Node

ID = "C10"
READY = True
LEVEL = "exploration"
WORKERS = {"quick": 8, "thorough": 16}
BUDGET = {"quick": 150, "thorough": 420}
MIN_NONTRIVIAL = {"quick": 2500, "thorough": 50000}
REQUIRED_HOOKS = ["evaluate:I", "evaluate:C", "direct", "roundtrip", "range"]
RULE = (
    "Conversion expressions over a bound variable x -- the six round trips int(string(x)), uint(string(x)), double(string(x)), string(bytes(x)), "
    "timestamp(string(x)), duration(string(x)); the single conversions int/uint/double/string/bytes/timestamp/duration applied to every admissible source type; "
    "and their compositions in both directions -- evaluated under both runners with x drawn from boundary-biased generators (int64/uint64 edges, doubles at "
    "2^63, 2^64 and neighbours, subnormals, +-inf; whole-second timestamps over years 1..9999 biased to < 1000, century/leap years and both range ends, written "
    "with non-UTC offsets; durations to the +-315,576,000,000 s edge; invalid UTF-8 of every kind; unparsable texts), and through the celtypes constructors "
    "directly. Oracle: exact integer/decimal text, truncation via rationals, range predicates, strict UTF-8 decoder, independent calendar. "
    "distinct_nontrivial = distinct (conversion, x) whose expected outcome is an error, whose x is within 2 of a range bound, negative, non-ASCII or non-UTC."
)
ASSUMPTIONS = [
    "shortest round-trip float text is not assumed, only double(string(d)) == d",
    "texts that a lenient parser may or may not accept (leading '+', spaces, underscores, non-ASCII digits, hex) are not asserted",
    "only whole-second timestamps/durations are asserted for the string round trips",
]

V = lambda t: Node("var", t, "x")


def call(name, t, arg):
    return Node("call", t, name, arg)


# (label, node builder, source kind)
def conversions():
    C = []
    # round trips
    C.append(("rt int(string(i))", call("int", "int", call("string", "string", V("int"))), "int"))
    C.append(("rt uint(string(u))", call("uint", "uint", call("string", "string", V("uint"))), "uint"))
    C.append(("rt double(string(d))", call("double", "double", call("string", "string", V("double"))), "double-finite"))
    C.append(("rt string(bytes(s))", call("string", "string", call("bytes", "bytes", V("string"))), "string"))
    C.append(("rt bytes(string(b))", call("bytes", "bytes", call("string", "string", V("bytes"))), "bytes"))
    C.append(("rt timestamp(string(t))", call("timestamp", "ts", call("string", "string", V("ts"))), "ts-whole"))
    C.append(("rt duration(string(d))", call("duration", "dur", call("string", "string", V("dur"))), "dur-whole"))
    # the same law for timestamps that carry the zone they were written in (a bound timestamp is always UTC)
    C.append(("rt timestamp(string(timestamp(text)))", call("timestamp", "ts", call("string", "string", call("timestamp", "ts", V("string")))), "ts-text-whole"))
    # bound timestamps carrying an IANA zone (only the host can make such a value); zones sharing an abbreviation (CST, IST, BST ...) included
    C.append(("rt timestamp(string(t)) zoned", call("timestamp", "ts", call("string", "string", V("ts"))), "ts-whole-modern"))
    C.append(("rt duration(string(duration(text)))", call("duration", "dur", call("string", "string", call("duration", "dur", V("string")))), "dur-text-whole"))
    C.append(("rt int(double(i))", call("int", "int", call("double", "double", V("int"))), "int"))
    C.append(("rt uint(int(u))", call("uint", "uint", call("int", "int", V("uint"))), "uint"))
    C.append(("rt int(uint(i))", call("int", "int", call("uint", "uint", V("int"))), "int"))
    C.append(("rt double(int(d))", call("double", "double", call("int", "int", V("double"))), "double"))
    C.append(("rt int(timestamp-seconds)", call("int", "int", V("ts")), "ts-whole"))
    # single conversions
    for tgt, srcs in (
        ("int", ["int", "uint", "double", "int-text", "junk-text"]),
        ("uint", ["uint", "int", "double", "uint-text", "int-text", "junk-text"]),
        ("double", ["double", "int", "uint", "double-text", "junk-text"]),
        ("string", ["string", "int", "uint", "bytes", "ts-whole", "dur-whole"]),
        ("bytes", ["bytes", "string"]),
        ("timestamp", ["ts-text", "junk-text", "ts"]),
        ("duration", ["dur-text", "junk-text", "dur"]),
    ):
        for sk in srcs:
            st = SRC_TYPE[sk]
            rt = {"timestamp": "ts", "duration": "dur"}.get(tgt, tgt)
            C.append((f"{tgt}({sk})", call(tgt, rt, V(st)), sk))
    # a conversion applied to the result of another one: when the inner conversion fails, so does the outer one (string() and
    # type() accept any object -- also an error object, if the glue hands it over as a value)
    inner = list(C[-1:-40:-1])
    for lab, node, sk in [c for c in C if not c[0].startswith("rt ") and c[1].a[1].k == "var"]:
        it = node.t
        for outer in ("string", "double", "int", "uint", "bytes"):
            if (outer, it) in (("string", "ts"), ("bytes", "int"), ("bytes", "uint"), ("bytes", "double"), ("bytes", "ts"), ("bytes", "dur"), ("double", "bytes"), ("int", "bytes"), ("uint", "bytes"), ("double", "ts"), ("double", "dur"), ("uint", "ts"), ("int", "dur"), ("uint", "dur")):
                continue
            C.append((f"nested {outer}({lab})", call(outer, outer, node), sk))
    return C


SRC_TYPE = {
    "int": "int", "uint": "uint", "double": "double", "double-finite": "double", "string": "string", "bytes": "bytes", "ts": "ts", "ts-whole": "ts", "dur": "dur",
    "dur-whole": "dur", "int-text": "string", "uint-text": "string", "double-text": "string", "junk-text": "string", "ts-text": "string", "dur-text": "string",
    "ts-text-whole": "string", "dur-text-whole": "string", "ts-whole-modern": "ts",
}

JUNK = ["", "abc", "x1", "--", "one", "NaN!", " ", "1.2.3", "12abc", "1e", "e5", "0x", "٣", "１２", "\x00", "T", "P1D", "ss", "h", "-", "+", ".", "1..s", "true"]


def draw(rnd, kind):
    if kind == "int":
        return ("int", MV.rand_int(rnd))
    if kind == "uint":
        return ("uint", MV.rand_uint(rnd))
    if kind == "double":
        return ("double", MV.rand_double(rnd, nan=False))
    if kind == "double-finite":
        return ("double", MV.rand_double(rnd, finite=True))
    if kind == "string":
        return ("string", MV.rand_string(rnd, 8))
    if kind == "bytes":
        r = rnd.random()
        if r < 0.4:
            bad = [b"\xff", b"\xc0\x80", b"\xed\xa0\x80", b"\xf4\x90\x80\x80", b"\xe2\x82", b"\x80", b"a\xc3", b"\xf8\x88\x80\x80\x80", b"\xc3\x28", b"\xf0\x9f\x98"]
            return ("bytes", rnd.choice([b"", b"ok"]) + rnd.choice(bad) + rnd.choice([b"", b"z"]))
        return ("bytes", MV.rand_bytes(rnd, 8))
    if kind == "ts":
        return ("ts", MV.rand_ts(rnd))
    if kind == "ts-whole-modern" and rnd.random() < 0.75:
        from .. import civil

        y = rnd.choice([1900, 1945, 1969, 1970, 1999, 2000, 2021, 2024, 2037, 2038, 2100, rnd.randint(1900, 2100)])
        return ("ts", (civil.days_from_civil(y, rnd.randint(1, 12), rnd.randint(1, 28)) * 86400 + rnd.randint(0, 86399)) * 10**6)
    if kind in ("ts-whole", "ts-whole-modern"):
        r = rnd.random()
        if r < 0.35:
            from .. import civil

            y = rnd.choice([1, 2, 9, 10, 99, 100, 999, 1000, 1582, 1600, 1900, 2000, 2100, 9999, rnd.randint(1, 999), rnd.randint(1, 9999)])
            us = (civil.days_from_civil(y, rnd.randint(1, 12), rnd.randint(1, 28)) * 86400 + rnd.randint(0, 86399)) * 10**6
            return ("ts", max(MV.TS_MIN_US, min(MV.TS_MAX_US - 999999, us)))
        return ("ts", MV.rand_ts(rnd, whole_seconds=True))
    if kind == "dur":
        return ("dur", MV.rand_dur(rnd))
    if kind == "dur-whole":
        return ("dur", MV.rand_dur(rnd, whole_seconds=True))
    if kind == "int-text":
        v = MV.rand_int(rnd)
        if rnd.random() < 0.25:
            v = rnd.choice([MV.INT_MAX + 1, MV.INT_MIN - 1, 2**64, -(2**70), MV.UINT_MAX, MV.UINT_MAX + 1])
        return ("string", str(v))
    if kind == "uint-text":
        v = MV.rand_uint(rnd)
        if rnd.random() < 0.25:
            v = rnd.choice([MV.UINT_MAX + 1, 2**70, -1, -5])
        return ("string", str(v))
    if kind == "double-text":
        d = MV.rand_double(rnd, finite=True)
        return ("string", rnd.choice([repr(d), "%.3f" % d if abs(d) < 1e15 else repr(d), "%e" % d, str(int(d)) if abs(d) < 1e18 else "1e300", ".5", "5.", "1e5", "-1E-5"]))
    if kind == "junk-text":
        return ("string", rnd.choice(JUNK))
    if kind == "dur-text-whole":
        sign = rnd.choice(["", "", "-"])
        h, m, sec = rnd.choice([0, 0, 1, 23, 24, 100, 87660000 - 1]), rnd.choice([0, 1, 59, 60, 61]), rnd.choice([0, 1, 59, 60, 3600, 86400])
        parts = [f"{v}{u}" for v, u in ((h, "h"), (m, "m"), (sec, "s")) if v or rnd.random() < 0.3] or ["0s"]
        return ("string", sign + "".join(parts))
    if kind in ("ts-text", "ts-text-whole"):
        us = MV.rand_ts(rnd, whole_seconds=kind == "ts-text-whole" or rnd.random() < 0.6)
        if kind == "ts-text-whole" and rnd.random() < 0.3:
            from .. import civil

            y = rnd.choice([1, 9, 99, 100, 999, 1000, 1600, 1900, 2000, 2100, 9999])
            us = (civil.days_from_civil(y, rnd.choice([1, 2, 3, 12]), rnd.choice([1, 28, 29 if y % 4 == 0 and (y % 100 or y % 400 == 0) else 28])) * 86400 + rnd.choice([0, 1, 1799, 1800, 3599, 43200, 86399])) * 10**6
            us = max(MV.TS_MIN_US, min(MV.TS_MAX_US - 999999, us))
        off = MV.rand_offset(rnd)
        if not (MV.TS_MIN_US <= us + off * 60 * 10**6 <= MV.TS_MAX_US):
            off = 0
        return ("string", MV.ts_text(us, off))
    if kind == "dur-text":
        r = rnd.random()
        if r < 0.4:
            s = rnd.choice([0, 1, 59, 60, 3599, 3600, 86400, 315576000000, 315576000001, 315575999999, rnd.randint(0, 10**7)])
            return ("string", rnd.choice(["", "-", "+"]) + f"{s}s")
        parts = []
        for unit in ("h", "m", "s", "ms", "us"):
            if rnd.random() < 0.5:
                parts.append(f"{rnd.randint(0, 99)}{unit}")
        if not parts:
            parts = ["1.5s"]
        if rnd.random() < 0.3:
            parts.append(rnd.choice(["0.5s", "1.25m", "0.001h", "500ms", "2.5ms", "1000ns", "1500us"]))
        return ("string", rnd.choice(["", "-", ""]) + "".join(parts))
    raise ValueError(kind)


def expected_of(node, env):
    try:
        return ("V", lang.Model(env).ev(node))
    except lang.ModelErr:
        return ("E",)
    except lang.Unspec as ex:
        return ("U", str(ex))


def agrees(out, exp):
    if exp[0] == "E":
        return out[0] == "E"
    return out[0] == "V" and MV.same_value_ignoring_class(out[1], MV.canon_of(exp[1]))


def edge_class(v):
    tag, p = v
    if tag == "int":
        return "edge" if p - MV.INT_MIN <= 2 or MV.INT_MAX - p <= 2 else ("neg" if p < 0 else "mid")
    if tag == "uint":
        return "edge" if p <= 2 or MV.UINT_MAX - p <= 2 or abs(p - 2**63) <= 2 else "mid"
    if tag == "double":
        if p != p or p in (math.inf, -math.inf):
            return "nonfinite"
        a = abs(p)
        return "int-edge" if 2**62 <= a <= 2**65 else ("frac" if a != int(a) else ("neg" if p < 0 else "mid"))
    if tag == "string":
        return "ascii" if p.isascii() else "non-ascii"
    if tag == "bytes":
        try:
            p.decode("utf-8")
            return "utf8"
        except UnicodeDecodeError:
            return "invalid-utf8"
    if tag == "ts":
        y = lang.civil.fields(p)["getFullYear"]
        return "year<1000" if y < 1000 else ("year>=9999" if y >= 9999 else "mid")
    if tag == "dur":
        return "edge" if abs(abs(p) - MV.DUR_MAX_US) <= 2 * 10**6 else ("neg" if p < 0 else "mid")
    return "-"


IANA = [
    "America/Chicago", "Asia/Shanghai", "America/Havana", "Asia/Taipei", "Asia/Kolkata", "Europe/Dublin", "Asia/Jerusalem", "Europe/London", "Australia/Sydney",
    "America/New_York", "America/Los_Angeles", "Asia/Manila", "Australia/Lord_Howe", "Asia/Kathmandu", "America/St_Johns", "Pacific/Apia", "Pacific/Kiritimati", "UTC",
]


def zoned(benv, x):
    """Re-dress the bound timestamp in an IANA zone chosen from its value (same instant)."""
    import datetime
    import zoneinfo

    us = x[1]
    if not (MV.TS_MIN_US + 2 * 86400 * 10**6 <= us <= MV.TS_MAX_US - 2 * 86400 * 10**6):
        return benv
    tz = zoneinfo.ZoneInfo(IANA[(us // 1000003) % len(IANA)])
    ct = core.celpy().celtypes
    utc = datetime.datetime(1970, 1, 1, tzinfo=datetime.timezone.utc) + datetime.timedelta(microseconds=us)
    try:
        benv["x"] = ct.TimestampType(utc.astimezone(tz))
    except (OverflowError, ValueError):
        pass
    return benv


def ambiguous(dt):
    """The wall-clock reading of this zoned value occurs twice in its zone (clocks set back): its offset depends on datetime.fold."""
    import datetime

    naive = datetime.datetime(dt.year, dt.month, dt.day, dt.hour, dt.minute, dt.second, dt.microsecond)
    try:
        return dt.tzinfo.utcoffset(naive.replace(fold=0)) != dt.tzinfo.utcoffset(naive.replace(fold=1))
    except Exception:
        return False


def repeated_hour_values():
    """Whole-second instants inside the second pass of a repeated hour of the zone that zoned() derives from the value (deterministic)."""
    import datetime
    import zoneinfo

    out = []
    for zi, name in enumerate(IANA):
        tz = zoneinfo.ZoneInfo(name)
        for year in (1999, 2021, 2040):
            t = datetime.datetime(year, 1, 1, tzinfo=datetime.timezone.utc)
            step = datetime.timedelta(hours=1)
            prev = t.astimezone(tz).utcoffset()
            for _ in range(366 * 24):
                t += step
                cur = t.astimezone(tz).utcoffset()
                if cur < prev:
                    # clocks went back at some instant in (t - 1h, t]; t .. t + 30 min lies in the second pass for whole-hour changes
                    base = int((t - datetime.datetime(1970, 1, 1, tzinfo=datetime.timezone.utc)).total_seconds())
                    for sec in range(base + 60, base + 1800):
                        us = sec * 10**6
                        if (us // 1000003) % len(IANA) == zi:
                            loc = (datetime.datetime(1970, 1, 1, tzinfo=datetime.timezone.utc) + datetime.timedelta(seconds=sec)).astimezone(tz)
                            if loc.fold == 1:
                                out.append(("ts", us))
                                break
                    break
                prev = cur
    return out


def check(acc, label, node, x, cached=True):
    env = {"x": x}
    exp = expected_of(node, env)
    if label == "rt double(string(d))":
        exp = ("V", x)  # the statement itself: double(string(d)) == d, whatever text string() chooses
    if exp[0] == "U":
        acc.hook("unspecified-by-model")
        return
    src = lang.to_text(node)
    benv = MV.cel_env(env)
    if label.endswith(" zoned"):
        benv = zoned(benv, x)
    ec = edge_class(x)
    acc.hook("roundtrip" if label.startswith("rt ") else "range")
    if exp[0] == "E" or ec not in ("mid", "ascii", "utf8", "-"):
        acc.nt([label, MV.enc(x)])
    for r in "IC":
        out = core.eval_cached(r, src, benv) if cached else core.api_eval(r, src, benv)
        acc.hook("evaluate:" + r)
        acc.evaluations += 1
        acc.cell(label, ec, exp[0], r, "ok" if agrees(out, exp) else "differ")
        if agrees(out, exp):
            continue
        if label.endswith(" zoned"):
            off = benv["x"].utcoffset()
            odd = off is not None and (off.seconds % 60 != 0 or off.microseconds != 0)
            acc.violation(
                f"{r} zoned timestamp(string(t)) {'zone-offset-with-seconds' if odd else ('ambiguous-wall-time' if ambiguous(benv['x']) else 'whole-minute-offset')} x={ec} obs={diag.oclass(out).split('@')[0]} exp=V:ts",
                f"{'interpreted' if r == 'I' else 'compiled'}: timestamp(string(t)) with t={x!r} carried in zone {benv['x'].tzinfo} (offset {off}) gave {core.jkey(out)[:100]}; string(t) = {str(benv['x'])!r}",
                {"label": label, "x": MV.enc(x), "runner": r},
            )
            continue
        # which step of a composition is off?
        step = label
        if node.a[1].k == "call":
            inner = node.a[1]
            ie = expected_of(inner, env)
            io = core.api_eval(r, lang.to_text(inner), benv)
            if ie[0] != "U" and not agrees(io, ie):
                step = f"{inner.a[0]}({x[0]})"
                out, exp = io, ie
        acc.violation(
            f"{r} {step} x={ec} obs={diag.oclass(out).split('@')[0]} exp={'E' if exp[0] == 'E' else 'V:' + exp[1][0]}",
            f"{'interpreted' if r == 'I' else 'compiled'}: {label} with x={x!r:.80} gave {core.jkey(out)[:100]}, expected {str(exp)[:100]}",
            {"label": label, "x": MV.enc(x), "runner": r},
        )


def direct(acc, rnd):
    """The celtypes constructors themselves, same oracle."""
    ct = core.celpy().celtypes
    ctor = {"int": ct.IntType, "uint": ct.UintType, "double": ct.DoubleType, "string": ct.StringType, "bytes": ct.BytesType, "timestamp": ct.TimestampType, "duration": ct.DurationType}
    for label, node, kind in CONV:
        if label.startswith("rt ") or node.a[1].k != "var":
            continue
        x = draw(rnd, kind)
        exp = expected_of(node, {"x": x})
        if exp[0] == "U":
            continue
        acc.hook("direct")
        acc.evaluations += 1
        try:
            v = ctor[node.a[0]](MV.to_cel(x))
            out = ["V", core.canon(v)]
        except (ValueError, TypeError, OverflowError, UnicodeDecodeError) as ex:
            out = ["E"]
        except Exception as ex:
            out = ["X", "direct", type(ex).__name__, "?", ""]
        acc.cell("direct", label, exp[0], "ok" if agrees(out, exp) else "differ")
        if not agrees(out, exp):
            acc.violation(
                f"direct {label} x={edge_class(x)} obs={diag.oclass(out).split('@')[0]} exp={'E' if exp[0] == 'E' else 'V:' + exp[1][0]}",
                f"celtypes constructor for {label} with {x!r:.80} gave {core.jkey(out)[:100]}, expected {str(exp)[:100]}",
                {"label": label, "x": MV.enc(x), "runner": "direct"},
            )


CONV = conversions()


def boundary_values(kind):
    if kind == "int":
        return [("int", v) for v in MV.int_boundaries()]
    if kind == "uint":
        return [("uint", v) for v in MV.uint_boundaries()]
    if kind in ("double", "double-finite"):
        return [("double", v) for v in MV.double_boundaries(False) if kind == "double" or v not in (math.inf, -math.inf)]
    if kind in ("ts-whole", "ts-whole-modern"):
        return [("ts", v - v % 10**6) for v in MV.ts_boundaries()]
    if kind == "dur-whole":
        return [("dur", int(v / 10**6) * 10**6) for v in MV.dur_boundaries()]
    return []


def run(ctx):
    acc = ctx.acc
    rnd = ctx.rnd
    core.celpy()
    # boundary values through every conversion that takes them
    k = 0
    for label, node, kind in CONV:
        for x in boundary_values(kind):
            k += 1
            if ctx.mine(k):
                check(acc, label, node, x)
    # a host-bound timestamp whose wall-clock reading occurs twice in its zone (second pass)
    zlabel, znode, _ = next(e for e in CONV if e[0].endswith(" zoned"))
    for x in repeated_hour_values():
        k += 1
        if ctx.mine(k):
            acc.hook("zoned-repeated-hour")
            check(acc, zlabel, znode, x)
    acc.exhaustive.append("every boundary value of the generators through every conversion accepting its type")
    n = ctx.scale(120000, 2400000)
    for j in range(n):
        if ctx.expired():
            break
        label, node, kind = CONV[j % len(CONV)] if rnd.random() < 0.7 else rnd.choice(CONV[:10])
        x = draw(rnd, kind)
        check(acc, label, node, x, cached=rnd.random() < 0.9)
        if j % 40 == 0:
            direct(acc, rnd)
        if j % 1499 == 0:
            acc.sample({"conversion": label, "x": MV.enc(x)})


def replay(case):
    core.celpy()
    x = MV.dec(case["x"])
    acc = core.Acc()
    for label, node, kind in CONV:
        if label == case["label"]:
            check(acc, label, node, x, cached=False)
    return not acc.violations, f"{case['label']} x={x!r}\n" + "\n".join(v["what"] for v in acc.violations)
