"""C18  Policy translation preserves the filter's boolean structure."""

from __future__ import annotations

import itertools
import json

from .. import core, diag, larkconv, mv as MV

ID = "C18"
READY = True
LEVEL = "exploration"
WORKERS = {"quick": 8, "thorough": 16}
BUDGET = {"quick": 150, "thorough": 420}
MIN_NONTRIVIAL = {"quick": 200, "thorough": 1500}
REQUIRED_HOOKS = ["translation-history", "rewrite", "parse", "evaluate:I", "evaluate:C", "clause-alone"]
RULE = (
    "Filter trees are built from list (implicit and), and, or, not with 1-3 children over primitive clauses translated by the real rewriters, one family per "
    "top-level shape of emitted CEL: == (value eq), ! prefix (boolean false / not-in), .contains call (in), && (marked-for-op, flow-logs), ?: (offhour opt-out), "
    ">= / > (tag-count, health-event), in (used). Every tree with at most 2 connective nodes is enumerated (3 in the thorough tier) with rotating clause families; each "
    "clause instance has its own resource keys/tags/stub data, so every steering assignment (2^n, n <= 5) is applied. Oracle: each clause's own emitted text is "
    "evaluated alone, in parentheses, under the same resource/now/stub functions to measure its truth value; expected = all/any/not-all folded over those; compared "
    "with the whole emitted text, which must also parse. distinct_nontrivial = distinct (tree, clause families) with >= 2 connectives or >= 2 clauses."
)
ASSUMPTIONS = [
    "cases where a clause alone is not boolean are discarded and counted",
    "stub host functions (flow_logs, get_health_events, all_snapshots) read canned data out of the resource",
    "Custodian semantics: list and 'and' = all, 'or' = any, 'not' = not all",
]

NOW_US = None  # set in run(): a Wednesday 20:30 UTC
QUICK = []  # quick tier: alternate the runners over the trees instead of running both on each


# ---------------------------------------------------------------- clause families
class Family:
    def __init__(self, name, top, build, steer, stub=False, shared=False):
        self.name, self.top, self.build, self.steer, self.stub, self.shared = name, top, build, steer, stub, shared


def tag(name, value):
    return {"Key": name, "Value": value, "key": name}


def fam_eq():
    return Family("value-eq", "cmp", lambda i: {"type": "value", "key": f"k{i}", "op": "eq", "value": "v"}, lambda res, i, t: res.__setitem__(f"k{i}", "v" if t else "w"))


SPECIAL_VALUES = ["C:\\", 'a"b', "x ) || ( y", "what ? a : b", "it's", "[{(", "&& || ?", "tail\\\\", 'q\\"']


def fam_eq_special():
    """value-eq whose literal contains quotes, brackets, operators or ends in a backslash."""
    return Family("value-eq-special", "cmp", lambda i: {"type": "value", "key": f"sp{i}", "op": "eq", "value": SPECIAL_VALUES[i % len(SPECIAL_VALUES)]},
                  lambda res, i, t: res.__setitem__(f"sp{i}", SPECIAL_VALUES[i % len(SPECIAL_VALUES)] if t else "other"))


def fam_eq_fixed(v):
    """value-eq with ONE given literal whatever its position (the positional family above shows each literal in one position only)."""
    return Family("value-eq-special", "cmp", lambda i: {"type": "value", "key": f"sp{i}", "op": "eq", "value": v}, lambda res, i, t: res.__setitem__(f"sp{i}", v if t else "other"))


def fam_in_fixed(members, negate=False):
    if negate:
        return Family("value-ni-special", "not", lambda i: {"type": "value", "key": f"ms{i}", "op": "ni", "value": members}, lambda res, i, t: res.__setitem__(f"ms{i}", "none-of-them" if t else members[0]))
    return Family("value-in-special", "call", lambda i: {"type": "value", "key": f"js{i}", "op": "in", "value": members}, lambda res, i, t: res.__setitem__(f"js{i}", members[0] if t else "none-of-them"))


MORE_SPECIAL_VALUES = ["\\", "dir\\sub\\", 'say \\"hi\\"', "tab\tnl\n", "'", '"', "\\'", "a\\\\b\\\\"]


def special_literal_positions(h, ctx):
    """Every special literal (quotes, brackets, operators, a backslash at the end) as the FIRST and as the LAST clause under every
    connective, alone and nested in a list / and / not: whether the translator's scan for a top-level operator survives the literal
    depends on what follows it in the emitted text."""
    L = ("leaf",)
    plain, other = fam_eq(), fam_notbool()
    k = 0
    specials = [fam_eq_fixed(v) for v in SPECIAL_VALUES + MORE_SPECIAL_VALUES] + [fam_in_fixed(m) for m in IN_SPECIAL] + [fam_in_fixed(m, True) for m in IN_SPECIAL[::3]]
    for sp in specials:
        for kind in ("list", "and", "or", "not"):
            placements = ((None, None), ("list", True), ("list", False), ("and", True), ("not", True), ("not", False), ("or", False))
            for outer, inner_last in placements if ctx.thorough else placements[:3] + placements[4:5]:
                for first in (True, False):
                    k += 1
                    if not ctx.mine(k):
                        continue
                    inner = (kind, [L, L])
                    fams_inner = [sp, other] if first else [other, sp]
                    if outer is None:
                        shape, fams = inner, fams_inner
                    elif inner_last:
                        shape, fams = (outer, [L, inner]), [plain] + fams_inner
                    else:
                        shape, fams = (outer, [inner, L]), fams_inner + [plain]
                    h.acc.hook("special-literal-position")
                    check_tree(h, shape, fams, "special-literal")
    h.acc.exhaustive.append("%d special literals x 4 connectives x first/last clause x alone or nested (before / after a sibling) in list/and/not/or" % len(specials))


def fam_ne():
    return Family("value-gt", "cmp", lambda i: {"type": "value", "key": f"n{i}", "op": "gt", "value": 5}, lambda res, i, t: res.__setitem__(f"n{i}", 9 if t else 1))


def fam_notbool():
    return Family("value-bool-false", "not", lambda i: {"type": "value", "key": f"b{i}", "op": "eq", "value": False}, lambda res, i, t: res.__setitem__(f"b{i}", not t))


def fam_ni():
    return Family("value-ni", "not", lambda i: {"type": "value", "key": f"m{i}", "op": "ni", "value": ["a", "b"]}, lambda res, i, t: res.__setitem__(f"m{i}", "z" if t else "a"))


def fam_in():
    return Family("value-in", "call", lambda i: {"type": "value", "key": f"j{i}", "op": "in", "value": ["a", "b"]}, lambda res, i, t: res.__setitem__(f"j{i}", "a" if t else "z"))


IN_SPECIAL = [["a)b", "zz"], ["x(y", "q"], ['say "hi', "w"], ["a || b", "c"], ["p ? q : r", "s"], ["it's", "t"], ["[", "]"], ["back\\", "u"]]


def fam_in_special():
    """value-in whose list members (emitted with another quoting routine than scalar values) contain brackets, quotes or operators."""
    return Family("value-in-special", "call", lambda i: {"type": "value", "key": f"js{i}", "op": "in", "value": IN_SPECIAL[i % len(IN_SPECIAL)]},
                  lambda res, i, t: res.__setitem__(f"js{i}", IN_SPECIAL[i % len(IN_SPECIAL)][0] if t else "none-of-them"))


def fam_ni_special():
    return Family("value-ni-special", "not", lambda i: {"type": "value", "key": f"ms{i}", "op": "ni", "value": IN_SPECIAL[(i + 3) % len(IN_SPECIAL)]},
                  lambda res, i, t: res.__setitem__(f"ms{i}", "none-of-them" if t else IN_SPECIAL[(i + 3) % len(IN_SPECIAL)][0]))


def fam_marked():
    def build(i):
        f = {"type": "marked-for-op", "op": "stop", "tag": f"mk{i}"}
        # the optional arguments of the clause (skew, skew_hours, tz) in turn
        f.update([{}, {"skew": 3}, {"skew_hours": 5}, {"tz": "utc"}, {"skew": 1, "skew_hours": 2, "tz": "America/New_York"}][i % 5])
        return f

    return Family("marked-for-op", "and", build, lambda res, i, t: res["Tags"].append(tag(f"mk{i}", "msg:stop@2000-01-01" if t else "msg:other@2000-01-01")))


def fam_offhour():
    return Family("offhour-opt-out", "cond", lambda i: {"type": "offhour", "opt-out": True, "tag": f"oh{i}", "default_tz": "UTC", "offhour": 20}, lambda res, i, t: (None if t else res["Tags"].append(tag(f"oh{i}", "x"))))


def fam_tagcount():
    return Family("tag-count", "cmp", lambda i: {"type": "tag-count", "count": 2 + i % 3}, lambda res, i, t: [res["Tags"].append(tag(f"fill{i}_{j}", "x")) for j in range(4 if t else 0)])


def fam_flow():
    return Family("flow-logs", "and", lambda i: {"type": "flow-logs", "enabled": True, "destination-type": "s3"}, lambda res, i, t: res.__setitem__("_fl", [{"LogDestinationType": "s3" if t else "cloud-watch-logs"}]), stub=True, shared=True)


def fam_health():
    return Family("health-event", "cmp", lambda i: {"type": "health-event"}, lambda res, i, t: res.__setitem__("_he", [{"x": 1}] if t else []), stub=True, shared=True)


def fam_used():
    return Family("used-ebs", "in", lambda i: {"type": "used"}, lambda res, i, t: res.__setitem__("SnapshotId", "snap-1" if t else "snap-9"), stub=True, shared=True)


FAMILIES = [fam_eq(), fam_eq_special(), fam_notbool(), fam_ni(), fam_in(), fam_in_special(), fam_ni_special(), fam_marked(), fam_offhour(), fam_ne(), fam_tagcount(), fam_flow(), fam_health(), fam_used()]
PLAIN = [f for f in FAMILIES if not f.stub]
OFFHOUR = next(f for f in FAMILIES if f.name == "offhour-opt-out")
SPECIAL = next(f for f in FAMILIES if f.name == "value-eq-special")


# ---------------------------------------------------------------- trees
def shapes(nconn, depth=0):
    """Tree skeletons with exactly nconn connective nodes: ('leaf',) | (kind, [children])."""
    if nconn == 0:
        yield ("leaf",)
        return
    for kind in ("list", "and", "or", "not"):
        for arity in (1, 2, 3):
            for split in compositions(nconn - 1, arity):
                for kids in itertools.product(*[list(shapes(k, depth + 1)) for k in split]):
                    yield (kind, list(kids))


def compositions(n, parts):
    if parts == 1:
        yield (n,)
        return
    for i in range(n + 1):
        for rest in compositions(n - i, parts - 1):
            yield (i,) + rest


def count_leaves(s):
    return 1 if s[0] == "leaf" else sum(count_leaves(k) for k in s[1])


def depth_of(s):
    return 0 if s[0] == "leaf" else 1 + max(depth_of(k) for k in s[1])


def instantiate(shape, fams, counter):
    """-> filter structure (what Custodian's YAML would hold), plus the list of (family, index) leaves in order."""
    if shape[0] == "leaf":
        i = counter[0]
        counter[0] += 1
        fam = fams[i % len(fams)]
        return fam.build(i), [(fam, i)]
    kids, leaves = [], []
    for k in shape[1]:
        f, l = instantiate(k, fams, counter)
        kids.append(f)
        leaves += l
    if shape[0] == "list":
        return kids, leaves
    return {shape[0]: kids}, leaves


def fold(shape, truths, pos):
    """Custodian semantics over measured clause truths."""
    if shape[0] == "leaf":
        v = truths[pos[0]]
        pos[0] += 1
        return v
    vals = [fold(k, truths, pos) for k in shape[1]]
    if shape[0] in ("list", "and"):
        return all(vals)
    if shape[0] == "or":
        return any(vals)
    return not all(vals)


def shape_str(s):
    return "L" if s[0] == "leaf" else s[0] + "(" + ",".join(shape_str(k) for k in s[1]) + ")"


# ---------------------------------------------------------------- evaluation
class Harness:
    def __init__(self, acc):
        self.acc = acc
        c = core.celpy()
        import celpy.c7nlib as lib
        from xlate.c7n_to_cel import C7N_Rewriter

        self.R = C7N_Rewriter
        self.lib = lib
        self.ct = c.celtypes
        self.parser = c.CELParser(tree_class=c.TranspilerTree)
        import celpy.adapter as ad

        self.to_cel = ad.json_to_cel
        ct = self.ct

        def flow_logs(resource):
            return resource[ct.StringType("_fl")]

        def get_health_events(resource, statuses):
            return resource[ct.StringType("_he")]

        def all_snapshots():
            return ct.ListType([ct.StringType("snap-1"), ct.StringType("snap-2")])

        self.progs = {}
        self.functions = dict(lib.FUNCTIONS)
        self.functions.update({"flow_logs": flow_logs, "get_health_events": get_health_events, "all_snapshots": all_snapshots})

    def translate(self, filt, rtype="ebs"):
        self.acc.hook("rewrite")
        import contextlib
        import io

        with contextlib.redirect_stdout(io.StringIO()):
            return self.R.logical_connector(rtype, filt)

    def clause_text(self, fam, i, rtype="ebs"):
        import contextlib
        import io

        with contextlib.redirect_stdout(io.StringIO()):
            return self.R.primitive(rtype, fam.build(i))

    def evaluate(self, r, text, resource):
        c = core.celpy()
        binds = {"resource": self.to_cel(resource), "now": MV.to_cel(("ts", NOW_US))}
        self.acc.hook("evaluate:" + r)
        self.acc.evaluations += 1
        key = (r, text)
        prog = self.progs.get(key)
        if prog is None:
            try:
                env = c.Environment(annotations=dict(self.lib.DECLARATIONS), runner_class=core.runner_class(r))
                prog = env.program(env.compile(text), functions=self.functions)
            except c.CELParseError as ex:
                return ["P", ex.line, ex.column]
            except Exception as ex:
                return ["X", "program", type(ex).__name__, core._left_from(ex), core._msg(ex)]
            if len(self.progs) > 2000:
                self.progs.clear()
            self.progs[key] = prog
        try:
            return ["V", core.canon(prog.evaluate(binds))]
        except c.CELEvalError:
            return ["E"]
        except Exception as ex:
            return ["X", "evaluate", type(ex).__name__, core._left_from(ex), core._msg(ex)]


def truth_of(out):
    if out[0] == "V" and out[1][0] in ("BoolType", "bool"):
        return bool(out[1][1])
    return None


def check_tree(h: Harness, shape, fams, tag_):
    acc = h.acc
    filt, leaves = instantiate(shape, fams, [0])
    n = len(leaves)
    # shared-data families can be steered only once per tree
    seen_shared = set()
    for fam, i in leaves:
        if fam.shared:
            if fam.name in seen_shared:
                return
            seen_shared.add(fam.name)
    uses_stub = any(f.stub for f, _ in leaves)
    try:
        text = h.translate(filt)
    except Exception as ex:
        acc.violation(f"translate raises {type(ex).__name__} {shape_str(shape)}", f"logical_connector({json.dumps(filt)[:160]}) raised {type(ex).__name__}: {core._msg(ex)}", {"filter": filt})
        return
    nconn = shape_str(shape).count("(")
    if nconn >= 2 or n >= 2:
        acc.nt([shape_str(shape), [f.name for f, _ in leaves]])
    acc.hook("parse")
    try:
        tree = h.parser.parse(text)
    except Exception as ex:
        acc.violation(f"emitted-text does-not-parse {shape_str(shape)}", f"{text[:200]!r} from {json.dumps(filt)[:120]}: {type(ex).__name__}", {"filter": filt})
        return
    clause_texts = [h.clause_text(f, i) for f, i in leaves]
    runners = "IC"  # stub host functions are callable from both runners since the C14 repair (4a21cf7)
    if QUICK and runners == "IC":
        QUICK[0] += 1
        runners = "IC" if QUICK[0] % 3 == 0 else ("I" if QUICK[0] % 3 == 1 else "C")
    realised = set()
    for bits in itertools.product((True, False), repeat=n):
        resource = {"Tags": [tag("base", "x")], "_fl": [], "_he": [], "SnapshotId": "snap-9"}
        for (fam, i), t in zip(leaves, bits):
            fam.steer(resource, i, t)
        for r in runners:
            truths = []
            for ctext in clause_texts:
                acc.hook("clause-alone")
                truths.append(truth_of(h.evaluate(r, "(" + ctext + ")", resource)))
            if any(t is None for t in truths):
                acc.hook("discarded-clause-not-boolean")
                continue
            realised.add(tuple(truths))
            want = fold(shape, truths, [0])
            out = h.evaluate(r, text, resource)
            got = truth_of(out)
            acc.cell(tag_, r, shape[0], "depth%d" % depth_of(shape), "ok" if got == want else "differ")
            if got != want:
                m_shape, m_fams = minimal(h, shape, leaves, resource, r)
                acc.violation(
                    f"{r} {describe(m_shape, m_fams)} obs={'non-bool:' + diag.oclass(out).split('@')[0] if got is None else got} exp={want}",
                    f"{'interpreted' if r == 'I' else 'compiled'}: filters {json.dumps(filt)[:200]} -> {text[:200]!r}; clause truths {truths} so Custodian gives {want}, CEL gives {core.jkey(out)[:60]}",
                    {"filter": filt, "bits": list(bits), "runner": r, "families": [f.name for f, _ in leaves], "shape": shape_str(shape)},
                )
    acc.extra["truth_assignments_realised"] = acc.extra.get("truth_assignments_realised", 0) + len(realised)
    acc.extra["truth_assignments_possible"] = acc.extra.get("truth_assignments_possible", 0) + 2**n


def subtrees(shape, leaves, start=0):
    """Yield (subshape, its leaves) in post-order."""
    if shape[0] == "leaf":
        yield shape, leaves[start : start + 1]
        return
    pos = start
    for k in shape[1]:
        nk = count_leaves(k)
        yield from subtrees(k, leaves, pos)
        pos += nk
    yield shape, leaves[start : start + count_leaves(shape)]


def rebuild(shape, leaves):
    it = iter(leaves)

    def rec(s):
        if s[0] == "leaf":
            fam, i = next(it)
            return fam.build(i)
        kids = [rec(k) for k in s[1]]
        return kids if s[0] == "list" else {s[0]: kids}

    return rec(shape)


def minimal(h, shape, leaves, resource, r):
    """Smallest sub-tree whose own translation already disagrees with the fold (same resource)."""
    for sub, sl in subtrees(shape, leaves):
        if sub[0] == "leaf":
            continue
        try:
            text = h.translate(rebuild(sub, sl))
        except Exception:
            continue
        truths = [truth_of(h.evaluate(r, "(" + h.clause_text(f, i) + ")", resource)) for f, i in sl]
        if any(t is None for t in truths):
            continue
        if truth_of(h.evaluate(r, text, resource)) != fold(sub, truths, [0]):
            return sub, sl
    return shape, leaves


def describe(shape, leaves):
    it = iter(leaves)

    def rec(s):
        if s[0] == "leaf":
            fam, _ = next(it)
            return fam.top
        return s[0] + "(" + ",".join(rec(k) for k in s[1]) + ")"

    return rec(shape)


def run(ctx):
    global NOW_US
    from .. import civil

    NOW_US = (civil.days_from_civil(2021, 6, 16) * 86400 + 20 * 3600 + 30 * 60) * 10**6
    acc = ctx.acc
    rnd = ctx.rnd
    h = Harness(acc)
    if not ctx.thorough:
        QUICK.append(0)
    maxconn = 3 if ctx.thorough else 2
    i = 0
    complete = True
    for nconn in range(1, maxconn + 1):
        for shape in shapes(nconn):
            if depth_of(shape) > 3 or count_leaves(shape) > 5:
                continue
            i += 1
            if not ctx.mine(i):
                continue
            if ctx.expired():
                complete = False
                break
            reps = 2 if (nconn < 2 or (ctx.thorough and nconn < 3)) else 1
            for rep in range(reps):
                fams = list(PLAIN if rep == 0 and rnd.random() < 0.5 else FAMILIES)
                rnd.shuffle(fams)
                # make sure a ?:-clause and an &&-clause take part often
                if rnd.random() < 0.6:
                    fams.insert(rnd.randrange(2), OFFHOUR)
                if rnd.random() < 0.5:
                    fams.insert(0, SPECIAL)
                check_tree(h, shape, fams, f"conn{nconn}")
    if complete:
        acc.exhaustive.append(f"every filter tree with at most {maxconn} connective nodes (list/and/or/not, 1-3 children, <= 5 clauses) x all steering assignments")
    translation_histories(h, ctx)
    special_literal_positions(h, ctx)
    # every family pair directly under each connective (systematic on clause shapes)
    k = 0
    for kind in ("list", "and", "or", "not"):
        for fa in FAMILIES:
            for fb in FAMILIES:
                k += 1
                if not ctx.mine(k):
                    continue
                check_tree(h, (kind, [("leaf",), ("leaf",)]), [fa, fb], "pairs")
                if ctx.thorough or (k % 3 == 0):
                    check_tree(h, ("list", [("leaf",), (kind, [("leaf",), ("leaf",)])]), [FAMILIES[0], fa, fb], "pairs-nested")
    acc.exhaustive.append("every ordered pair of clause families directly under each connective, alone and nested in a list")
    n = ctx.scale(60, 20000)
    for j in range(n):
        if ctx.expired():
            break
        shape = rand_shape(rnd, rnd.randint(2, 5), 0)
        if count_leaves(shape) > 5 or depth_of(shape) > 4:
            continue
        fams = list(FAMILIES)
        rnd.shuffle(fams)
        check_tree(h, shape, fams, "random")
    acc.sample({"filters": [{"type": "value", "key": "k0", "op": "eq", "value": "v"}, {"or": [{"type": "value", "key": "b1", "op": "eq", "value": False}, {"type": "marked-for-op", "op": "stop", "tag": "mk2"}]}]})


def translation_histories(h, ctx):
    """The translation of a tree must not depend on which trees this process translated before: a sub-tree X is translated inside
    one enclosing connective and right afterwards inside another one (same clauses, hence the same emitted text for X)."""
    L = ("leaf",)
    subs = [("or", [L, L]), ("and", [L, L]), ("list", [L, L]), ("not", [L, L]), ("not", [L]), ("or", [L, ("and", [L, L])]), ("or", [L]), ("and", [L])]
    ctxs = [lambda x: ("or", [x, L]), lambda x: ("list", [x, L]), lambda x: ("and", [x, L]), lambda x: ("not", [x, L]), lambda x: ("or", [L, x]), lambda x: ("list", [L, x]), lambda x: ("not", [x]),
            lambda x: ("or", [("or", [x, L]), L]), lambda x: ("list", [("or", [x, L]), L])]
    fam_sets = [[FAMILIES[0], FAMILIES[0], FAMILIES[0], FAMILIES[0], FAMILIES[0]], [fam_eq(), fam_notbool(), fam_in(), fam_ne(), fam_eq()], [fam_offhour(), fam_eq(), fam_marked(), fam_eq(), fam_ni()]]
    k = 0
    for x in subs:
        for i1, c1 in enumerate(ctxs):
            for i2, c2 in enumerate(ctxs):
                if i1 == i2:
                    continue
                k += 1
                if not ctx.mine(k):
                    continue
                fams = fam_sets[k % len(fam_sets)]
                h.acc.hook("translation-history")
                check_tree(h, c1(x), fams, "history-first")
                check_tree(h, c2(x), fams, "history-second")
    h.acc.exhaustive.append("8 sub-trees x every ordered pair of 9 enclosing contexts, translated one after the other")


def rand_shape(rnd, nconn, depth):
    if nconn <= 0:
        return ("leaf",)
    kind = rnd.choice(["list", "and", "or", "not"])
    arity = rnd.choice([1, 2, 2, 3])
    rest = nconn - 1
    split = [0] * arity
    for _ in range(rest):
        split[rnd.randrange(arity)] += 1
    return (kind, [rand_shape(rnd, s, depth + 1) for s in split])


def replay(case):
    global NOW_US
    from .. import civil

    NOW_US = (civil.days_from_civil(2021, 6, 16) * 86400 + 20 * 3600 + 30 * 60) * 10**6
    acc = core.Acc()
    h = Harness(acc)
    text = h.translate(case["filter"])
    return False, f"filters: {json.dumps(case['filter'])}\nemitted CEL: {text}\nsteering bits {case.get('bits')} families {case.get('families')} (re-run the check to re-measure the clause truths)"
