"""C14  Host functions bind uniformly as functions or methods and override built-ins."""

from __future__ import annotations

import itertools

from .. import core, diag, hostfuncs, lang, mv as MV
from ..lang import Node

ID = "C14"
READY = True
LEVEL = "exploration"
WORKERS = {"quick": 4, "thorough": 16}
BUDGET = {"quick": 150, "thorough": 300}
MIN_NONTRIVIAL = {"quick": 600, "thorough": 4000}
REQUIRED_HOOKS = ["evaluate:I", "evaluate:C", "host-call", "override-isolation", "shared-ast", "unbound", "random-nesting"]
RULE = (
    "The host functions are recording proxies (name, received argument values with their classes). Product of call shape (f(a..), a.f(..), 0-3 arguments, "
    "nested in arithmetic, ||, &&, ?:, map/filter/exists_one/all/exists) x supplying style (list of callables, name->callable dict) x callable kind "
    "(module-level def in an importable module, nested def, lambda, callable object, name shadowing size/contains) x runner. Oracle: received arguments == "
    "reference values of the argument expressions (CEL classes); per call site the call count is exactly 1 in strict positions, exactly the list length inside "
    "map/filter/exists_one, between 1 and the length inside all/exists, at most 1 under ||, &&, ?:; the outcome equals the reference evaluator extended with the "
    "function's definition; a returned CELEvalError / raised ValueError / TypeError is absorbed exactly like a built-in error; an override does not leak into a "
    "program built without it; an unbound function name is an evaluation error. distinct_nontrivial = distinct (program, style, kind, runner) cases."
)
ASSUMPTIONS = [
    "a lambda or callable object can only be supplied by name (dict style): the list style needs __name__",
    "both operands of ||/&& and both branches of ?: may be evaluated (commutative error absorption), so at most one call per site is accepted there",
]

# ---------------------------------------------------------------- model-side definitions


def _i64(v):
    # the real host functions build an IntType: a result outside int64 is a ValueError there, i.e. an evaluation error by the property
    if not -(2**63) <= v < 2**63:
        raise lang.ModelErr("host function result outside int64")
    return ("int", v)


def m_h0():
    return ("int", 7)


def m_h1(a):
    return _i64(a[1] + 1)


def m_h2(a, b):
    return _i64(a[1] * 1000 + b[1])


def m_h3(a, b, c):
    return _i64(a[1] * 1000000 + b[1] * 1000 + c[1])


def m_hs(s):
    return ("string", s[1].upper())


def m_hb(a):
    return ("bool", a[1] % 2 == 0)


def m_hany(*a):
    return ("int", 40 + len(a))


def m_err(*a):
    raise lang.ModelErr("host error")


def m_size(x):
    return ("int", -1)


def m_contains(a, b):
    return ("bool", True)


MODEL = {"size#bad": m_err, "contains#bad": m_err, "string#bad": m_err, "h0": m_h0, "h1": m_h1, "h2": m_h2, "h3": m_h3, "hany": m_hany, "hs": m_hs, "hb": m_hb, "herr": m_err, "hval": m_err, "htyp": m_err, "hvsub": m_err, "htsub": m_err, "size": m_size, "contains": m_contains}
BASE = ["h0", "h1", "h2", "h3", "hs", "hb", "herr", "hval", "htyp"]


class CountingModel(lang.Model):
    """Reference evaluator that records calls of the host functions (for expected arguments)."""

    def __init__(self, env, names):
        self.calls = []
        funcs = {}
        for n in names:
            funcs[n.split("#")[0]] = self._wrap(n)  # 'size#bad' is bound under the name 'size'
        super().__init__(env, funcs)

    def _wrap(self, n):
        def f(*args):
            self.calls.append((n, list(args)))
            return MODEL[n](*args)

        return f


# ---------------------------------------------------------------- callable kinds
def make_functions(kind, names):
    """Return {name: callable} for the requested kind; every callable records into hostfuncs.LOG."""
    out = {}
    for n0 in names:
        base = getattr(hostfuncs, n0.replace("#", "_"))
        n = n0.split("#")[0]
        if n != n0:
            import types

            # bound under the built-in's name also in the list style (which goes by __name__)
            alias = types.FunctionType(base.__code__, base.__globals__, n)
            alias.__qualname__ = n
            alias.__module__ = base.__module__
            base = alias
        if kind == "module-def":
            out[n] = base
        elif kind == "nested-def":

            def mk(b, n=n):
                def inner(*a):
                    return b(*a)

                inner.__name__ = n
                return inner

            out[n] = mk(base)
        elif kind == "lambda":
            out[n] = (lambda b: (lambda *a: b(*a)))(base)
        elif kind == "callable-object":

            class Obj:
                def __init__(self, b):
                    self.b = b

                def __call__(self, *a):
                    return self.b(*a)

            out[n] = Obj(base)
        else:
            raise ValueError(kind)
    return out


KINDS = ["module-def", "nested-def", "lambda", "callable-object"]
I = lambda v: Node("lit", "int", ("int", v))
S = lambda v: Node("lit", "string", ("string", v))


OPTS = {}  # label -> {"env": extra bindings, "annotations": declared names} for programs that need more than x


def programs():
    """(label, node, names used, site constraints {site-name: (lo, hi)})"""
    P = []
    X = Node("var", "int", "x")

    def add(label, node, sites):
        P.append((label, node, sites))

    add("f()", Node("call", "int", "h0"), {"h0": (1, 1)})
    add("f(a)", Node("call", "int", "h1", X), {"h1": (1, 1)})
    add("f(a,b)", Node("call", "int", "h2", X, I(5)), {"h2": (1, 1)})
    add("f(a,b,c)", Node("call", "int", "h3", I(1), X, I(3)), {"h3": (1, 1)})
    add("a.f()", Node("meth", "int", "h1", X), {"h1": (1, 1)})
    add("a.f(b)", Node("meth", "int", "h2", X, I(5)), {"h2": (1, 1)})
    add("a.f(b,c)", Node("meth", "int", "h3", I(1), X, I(3)), {"h3": (1, 1)})
    add("s.f()", Node("meth", "string", "hs", S("abc")), {"hs": (1, 1)})
    add("f(a)+f(b)", Node("bin", "int", "+", Node("call", "int", "h1", X), Node("call", "int", "h2", I(2), X)), {"h1": (1, 1), "h2": (1, 1)})
    add("f(g(a))", Node("call", "int", "h1", Node("call", "int", "h2", X, I(1))), {"h1": (1, 1), "h2": (1, 1)})
    add("a.f(b).g()", Node("meth", "int", "h1", Node("meth", "int", "h2", X, I(1))), {"h1": (1, 1), "h2": (1, 1)})
    add("f(a+1, b*2)", Node("call", "int", "h2", Node("bin", "int", "+", X, I(1)), Node("bin", "int", "*", X, I(2))), {"h2": (1, 1)})
    add("f(a)+f(a)", Node("bin", "int", "+", Node("call", "int", "h1", X), Node("call", "int", "h1", X)), {"h1": (2, 2)})
    add("f(a)+f(a)+f(b)", Node("bin", "int", "+", Node("bin", "int", "+", Node("call", "int", "h1", X), Node("call", "int", "h1", X)), Node("call", "int", "h1", I(9))), {"h1": (3, 3)})
    add("a.f(b)+a.f(b)", Node("bin", "int", "+", Node("meth", "int", "h2", X, I(5)), Node("meth", "int", "h2", X, I(5))), {"h2": (2, 2)})
    add("f()+f()", Node("bin", "int", "+", Node("call", "int", "h0"), Node("call", "int", "h0")), {"h0": (2, 2)})
    add("map(e, f(a)) loop-invariant", Node("macro", ("list", "int"), "map", Node("list", ("list", "int"), I(1), I(2), I(3)), "e", Node("call", "int", "h1", X)), {"h1": (3, 3)})
    add("map(e, a.f(b)) loop-invariant", Node("macro", ("list", "int"), "map", Node("list", ("list", "int"), I(1), I(2), I(3)), "e", Node("meth", "int", "h2", X, I(5))), {"h2": (3, 3)})
    add("filter(e, fb(a)) loop-invariant", Node("macro", ("list", "int"), "filter", Node("list", ("list", "int"), I(1), I(2), I(3)), "e", Node("call", "bool", "hb", X)), {"hb": (3, 3)})
    add("[f(a)]", Node("list", ("list", "int"), Node("call", "int", "h1", X)), {"h1": (1, 1)})
    add("{k: f(a)}", Node("map", ("map", "string", "int"), (S("k"), Node("call", "int", "h1", X))), {"h1": (1, 1)})
    add("f(a) == 1", Node("bin", "bool", "==", Node("call", "int", "h1", X), I(4)), {"h1": (1, 1)})
    L = Node("list", ("list", "int"), I(1), I(2), I(3))
    E = Node("var", "int", "e")
    add("map(e, f(e))", Node("macro", ("list", "int"), "map", L, "e", Node("call", "int", "h1", E)), {"h1": (3, 3)})
    add("map(e, e.f(x))", Node("macro", ("list", "int"), "map", L, "e", Node("meth", "int", "h2", E, X)), {"h2": (3, 3)})
    add("filter(e, fb(e))", Node("macro", ("list", "int"), "filter", L, "e", Node("call", "bool", "hb", E)), {"hb": (3, 3)})
    add("exists_one(e, fb(e))", Node("macro", "bool", "exists_one", L, "e", Node("call", "bool", "hb", E)), {"hb": (3, 3)})
    add("all(e, fb(e))", Node("macro", "bool", "all", L, "e", Node("call", "bool", "hb", E)), {"hb": (1, 3)})
    add("exists(e, fb(e))", Node("macro", "bool", "exists", L, "e", Node("call", "bool", "hb", E)), {"hb": (1, 3)})
    # lists with repeated (equal) elements, equal elements of different CEL types, and nested macros over them: one call per element, not per distinct element
    LD = Node("list", ("list", "int"), I(1), I(1), I(2), I(1))
    add("dup map(e, f(e))", Node("macro", ("list", "int"), "map", LD, "e", Node("call", "int", "h1", E)), {"h1": (4, 4)})
    add("dup map(e, e.f(x))", Node("macro", ("list", "int"), "map", LD, "e", Node("meth", "int", "h2", E, X)), {"h2": (4, 4)})
    add("dup filter(e, fb(e))", Node("macro", ("list", "int"), "filter", LD, "e", Node("call", "bool", "hb", E)), {"hb": (4, 4)})
    add("dup exists_one(e, fb(e))", Node("macro", "bool", "exists_one", LD, "e", Node("call", "bool", "hb", E)), {"hb": (4, 4)})
    add("dup all(e, fb(e+1))", Node("macro", "bool", "all", LD, "e", Node("call", "bool", "hb", Node("bin", "int", "+", E, I(1)))), {"hb": (1, 4)})
    add("dup exists(e, fb(e))", Node("macro", "bool", "exists", Node("list", ("list", "int"), I(1), I(1), I(1)), "e", Node("call", "bool", "hb", E)), {"hb": (1, 3)})
    E2 = Node("var", "int", "e2")
    add("dup nested map(e, map(e2, f(e2)))", Node("macro", ("list", ("list", "int")), "map", Node("list", ("list", "int"), I(5), I(5)), "e", Node("macro", ("list", "int"), "map", Node("list", ("list", "int"), I(1), I(1)), "e2", Node("call", "int", "h1", E2))), {"h1": (4, 4)})
    add("dup nested map(e, map(e2, f(e, e2)))", Node("macro", ("list", ("list", "int")), "map", Node("list", ("list", "int"), I(5), I(5), I(6)), "e", Node("macro", ("list", "int"), "map", Node("list", ("list", "int"), I(1), I(1)), "e2", Node("call", "int", "h2", E, E2))), {"h2": (6, 6)})
    add("dup map(e, f(x)) x-valued elements", Node("macro", ("list", "int"), "map", Node("list", ("list", "int"), X, X, X), "e", Node("call", "int", "h1", E)), {"h1": (3, 3)})
    add("dup [f(a), f(a), f(a)]", Node("list", ("list", "int"), Node("call", "int", "h1", X), Node("call", "int", "h1", X), Node("call", "int", "h1", X)), {"h1": (3, 3)})
    add("dup {1: f(a), 2: f(a)}", Node("map", ("map", "int", "int"), (I(1), Node("call", "int", "h1", X)), (I(2), Node("call", "int", "h1", X))), {"h1": (2, 2)})
    B = lambda n: Node("call", "bool", "hb", n)
    add("fb(a) || true", Node("bin", "bool", "||", B(X), Node("lit", "bool", ("bool", True))), {"hb": (0, 1)})
    add("false && fb(a)", Node("bin", "bool", "&&", Node("lit", "bool", ("bool", False)), B(X)), {"hb": (0, 1)})
    add("fb(a) && fb(b)", Node("bin", "bool", "&&", B(X), Node("call", "bool", "hb", I(2))), {"hb": (1, 2)})
    add("c ? f(a) : g(a)", Node("cond", "int", Node("lit", "bool", ("bool", True)), Node("call", "int", "h1", X), Node("call", "int", "h2", X, I(1))), {"h1": (1, 1), "h2": (0, 1)})
    add("fb(a) ? 1 : 2", Node("cond", "int", B(X), I(1), I(2)), {"hb": (1, 1)})
    # errors from host functions
    T_, F_ = Node("lit", "bool", ("bool", True)), Node("lit", "bool", ("bool", False))
    for en in ("herr", "hval", "htyp", "hvsub", "htsub"):
        Eb = Node("call", "bool", en, X)
        add(f"{en}(a)", Eb, {en: (1, 1)})
        add(f"{en}(a) || true", Node("bin", "bool", "||", Eb, T_), {en: (0, 1)})
        add(f"true || {en}(a)", Node("bin", "bool", "||", T_, Eb), {en: (0, 1)})
        add(f"false && {en}(a)", Node("bin", "bool", "&&", F_, Eb), {en: (0, 1)})
        add(f"{en}(a) && false", Node("bin", "bool", "&&", Eb, F_), {en: (0, 1)})
        add(f"{en}(a) || false", Node("bin", "bool", "||", Eb, F_), {en: (1, 1)})
        add(f"true ? 1 : {en}(a)", Node("cond", "int", T_, I(1), Node("call", "int", en, X)), {en: (0, 1)})
        add(f"false ? 1 : {en}(a)", Node("cond", "int", F_, I(1), Node("call", "int", en, X)), {en: (1, 1)})
        add(f"a.{en}() + 1", Node("bin", "int", "+", Node("meth", "int", en, X), I(1)), {en: (1, 1)})
        add(f"[1,2].all(e, {en}(e))", Node("macro", "bool", "all", Node("list", ("list", "int"), I(1), I(2)), "e", Node("call", "bool", en, E)), {en: (1, 2)})
    # overrides of built-ins that FAIL: the failure is an evaluation error of that call (the built-in must not step in)
    L2 = Node("list", ("list", "int"), I(1), I(2))
    add("size(l) override raises TypeError", Node("call", "int", "size", L2), {"size#bad": (1, 1)})
    add("l.size() override raises TypeError", Node("meth", "int", "size", L2), {"size#bad": (1, 1)})
    add("size(l) == 2 || true, override raises", Node("bin", "bool", "||", Node("bin", "bool", "==", Node("call", "int", "size", L2), I(2)), T_), {"size#bad": (0, 1)})
    add("[l, l].map(e, size(e)) override raises", Node("macro", ("list", "int"), "map", Node("list", ("list", ("list", "int")), L2, L2), "e", Node("call", "int", "size", Node("var", ("list", "int"), "e"))), {"size#bad": (1, 2)})
    add("size(l) > 0 ? 1 : 2, override raises", Node("cond", "int", Node("bin", "bool", ">", Node("call", "int", "size", L2), I(0)), I(1), I(2)), {"size#bad": (1, 1)})
    add("s.contains(t) override returns error", Node("meth", "bool", "contains", S("abc"), S("b")), {"contains#bad": (1, 1)})
    add("s.contains(t) && false, override returns error", Node("bin", "bool", "&&", Node("meth", "bool", "contains", S("abc"), S("b")), F_), {"contains#bad": (0, 1)})
    add("string(1) override raises AttributeError", Node("call", "string", "string", I(1)), {"string#bad": (1, 1)})
    add("string(1) + 'x' override raises AttributeError", Node("bin", "string", "+", Node("call", "string", "string", I(1)), S("x")), {"string#bad": (1, 1)})
    # an argument that is an evaluation error: the call is an evaluation error, and a function that accepts anything never sees an error object
    Z = Node("bin", "int", "/", I(1), Node("bin", "int", "-", X, X))
    A_ = lambda *a: Node("call", "int", "hany", *a)
    add("errarg f(err)", A_(Z), {"hany": (0, 1)})
    add("errarg f(a, err)", A_(X, Z), {"hany": (0, 1)})
    add("errarg f(err, a)", A_(Z, X), {"hany": (0, 1)})
    add("errarg a.f(err)", Node("meth", "int", "hany", X, Z), {"hany": (0, 1)})
    add("errarg err.f()", Node("meth", "int", "hany", Z), {"hany": (0, 1)})
    add("errarg err.f(a)", Node("meth", "int", "hany", Z, X), {"hany": (0, 1)})
    add("errarg f(a, err) == 42 || false", Node("bin", "bool", "||", Node("bin", "bool", "==", A_(X, Z), I(42)), F_), {"hany": (0, 1)})
    add("errarg f(err) == 41 || true", Node("bin", "bool", "||", Node("bin", "bool", "==", A_(Z), I(41)), T_), {"hany": (0, 1)})
    add("errarg f(err) > 0 ? 1 : 2", Node("cond", "int", Node("bin", "bool", ">", A_(Z), I(0)), I(1), I(2)), {"hany": (0, 1)})
    add("errarg [1,2].map(e, f(e, err))", Node("macro", ("list", "int"), "map", L2, "e", A_(E, Z)), {"hany": (0, 2)})
    add("errarg f(g(err))", Node("call", "int", "h1", A_(Z)), {"hany": (0, 1), "h1": (0, 1)})
    add("errarg f(herr(a))", A_(Node("call", "int", "herr", X)), {"hany": (0, 1), "herr": (1, 1)})
    add("errarg a.f(hval(a))", Node("meth", "int", "hany", X, Node("call", "int", "hval", X)), {"hany": (0, 1), "hval": (1, 1)})
    add("errarg f(a, b) no error", A_(X, I(2)), {"hany": (1, 1)})
    # a variable, macro variable or declared name spelled like a supplied function: the call still reaches the function
    def clash(label, node, sites, env=None, ann=None):
        add(label, node, sites)
        OPTS[label] = {"env": env or {}, "annotations": ann or {}}

    H1V, H2V, HBV = Node("var", "int", "h1"), Node("var", "int", "h2"), Node("var", "int", "hb")
    clash("clash var f(a)", Node("call", "int", "h1", X), {"h1": (1, 1)}, {"h1": ("int", 5)})
    clash("clash var f(a) + var", Node("bin", "int", "+", Node("call", "int", "h1", X), H1V), {"h1": (1, 1)}, {"h1": ("int", 5)})
    clash("clash var f(var)", Node("call", "int", "h1", H1V), {"h1": (1, 1)}, {"h1": ("int", 5)})
    clash("clash var a.f(var)", Node("meth", "int", "h2", X, H2V), {"h2": (1, 1)}, {"h2": ("int", 5)})
    clash("clash var var.f(a)", Node("meth", "int", "h2", H2V, X), {"h2": (1, 1)}, {"h2": ("int", 5)})
    clash("clash macro-var map(f, f(f))", Node("macro", ("list", "int"), "map", L2, "h1", Node("call", "int", "h1", H1V)), {"h1": (2, 2)})
    clash("clash macro-var map(f, f.f(f))", Node("macro", ("list", "int"), "map", L2, "h2", Node("meth", "int", "h2", H2V, H2V)), {"h2": (2, 2)})
    clash("clash macro-var filter(fb, fb(fb))", Node("macro", ("list", "int"), "filter", L2, "hb", Node("call", "bool", "hb", HBV)), {"hb": (2, 2)})
    clash("clash declared f(a)", Node("call", "int", "h1", X), {"h1": (1, 1)}, None, {"h1": "IntType"})
    clash("clash declared+var f(a) + var", Node("bin", "int", "+", Node("call", "int", "h1", X), H1V), {"h1": (1, 1)}, {"h1": ("int", 5)}, {"h1": "IntType"})
    clash("clash declared a.f(b)", Node("meth", "int", "h2", X, I(5)), {"h2": (1, 1)}, None, {"h2": "IntType", "x": "IntType"})
    clash("clash declared any f(a, b)", A_(X, I(2)), {"hany": (1, 1)}, None, {"hany": "MapType"})
    # shadowing built-ins
    add("size(l) shadowed", Node("call", "int", "size", Node("list", ("list", "int"), I(1), I(2))), {"size": (1, 1)})
    add("l.size() shadowed", Node("meth", "int", "size", Node("list", ("list", "int"), I(1), I(2))), {"size": (1, 1)})
    add("s.contains(t) shadowed", Node("meth", "bool", "contains", S("abc"), S("zzz")), {"contains": (1, 1)})
    return P


PROGRAMS = programs()


# ---------------------------------------------------------------- random nestings (strict positions only: exact call counts)
def rand_strict(rnd, depth, scope):
    """A random int-typed program over host calls in strict positions; returns a Node."""
    r = rnd.random()
    if depth <= 0 or r < 0.18:
        opts = [Node("var", "int", "x"), I(rnd.randint(0, 9))] + [Node("var", "int", v) for v in scope]
        return rnd.choice(opts)
    sub = lambda: rand_strict(rnd, depth - 1, scope)
    if r < 0.30:
        return Node("call", "int", "h1", sub())
    if r < 0.40:
        return Node("meth", "int", "h1", sub())
    if r < 0.50:
        return Node("call", "int", "h2", sub(), sub())
    if r < 0.60:
        return Node("meth", "int", "h2", sub(), sub())
    if r < 0.66:
        return Node("call", "int", "h3", sub(), sub(), sub())
    if r < 0.70:
        return Node("call", "int", "h0")
    if r < 0.80:
        return Node("bin", "int", rnd.choice("+-"), sub(), sub())
    # a macro over a small list (repeated elements likely), reduced to an int by size() / index
    v = "e%d" % len(scope)
    n = rnd.randint(1, 3)
    lst = Node("list", ("list", "int"), *[rand_strict(rnd, 0, scope) if rnd.random() < 0.5 else I(rnd.randint(0, 2)) for _ in range(n)])
    if rnd.random() < 0.6:
        body = rand_strict(rnd, depth - 1, scope + [v])
        m = Node("macro", ("list", "int"), "map", lst, v, body)
        return Node("index", "int", m, I(rnd.randrange(n)))
    body = Node("call", "bool", "hb", rand_strict(rnd, depth - 1, scope + [v]))
    m = Node("macro", ("list", "int"), rnd.choice(["filter"]), lst, v, body)
    return Node("call", "int", "size", m)


def random_case(acc, rnd, r, style, kind):
    node = rand_strict(rnd, rnd.randint(1, 4), [])
    names = sorted({x.a[0] for x in lang.walk(node) if x.k in ("call", "meth") and x.a[0] in MODEL and x.a[0] != "size"})
    if not names:
        return
    xval = rnd.choice([0, 1, 2, 7])
    funcs = make_functions(kind, names)
    if style == "list" and kind in ("lambda", "callable-object"):
        style = "dict"
    supplied = list(funcs.values()) if style == "list" else dict(funcs)
    env = {"x": ("int", xval)}
    model = CountingModel(env, names)
    try:
        exp = ("V", model.ev(node))
    except lang.ModelErr:
        return  # an overflow somewhere: evaluation order decides how many calls happen
    except lang.Unspec:
        return
    try:
        src = lang.to_text(node)
    except ValueError:
        return
    del hostfuncs.LOG[:]
    out = core.api_eval(r, src, MV.cel_env(env), functions=supplied)
    log = list(hostfuncs.LOG)
    acc.hook("evaluate:" + r)
    acc.hook("host-call", len(log))
    acc.hook("random-nesting")
    acc.evaluations += 1
    acc.nt(["random", src, style, kind, r, xval])
    want = sorted((n, [MV.canon_of(a) for a in args]) for n, args in model.calls)
    got = sorted((n, args) for n, args in log)
    what = None
    if not agrees(out, exp):
        what = ("outcome", f"obs={diag.oclass(out).split('@')[0]} exp=V")
    elif len(want) != len(got):
        what = ("call-count", "too-few" if len(got) < len(want) else "too-many")
    elif core.jkey(want) != core.jkey(got):
        what = ("arguments", "received-args-differ")
    acc.cell("random-nesting", style, kind, r, "ok" if not what else what[0])
    if what:
        acc.violation(
            f"{r} {kind} {style} random-nesting {what[0]} {what[1]}",
            f"{'interpreted' if r == 'I' else 'compiled'} [{style}, {kind}] {src!r} with x={xval}: {what[0]} {what[1]}; outcome {core.jkey(out)[:100]}; {len(got)} calls received, {len(want)} expected",
            {"label": "random", "src": src, "style": style, "kind": kind, "runner": r, "x": xval},
        )


def agrees(out, exp):
    if exp[0] == "E":
        return out[0] == "E"
    return out[0] == "V" and MV.same_value_ignoring_class(out[1], MV.canon_of(exp[1]))


def run_case(acc, label, node, sites, style, kind, r, xval):
    names = sorted(sites)
    funcs = make_functions(kind, names)
    if style == "list":
        if kind in ("lambda", "callable-object"):
            return  # the list style needs __name__
        supplied = list(funcs.values())
    else:
        supplied = dict(funcs)
    env = {"x": ("int", xval)}
    opts = OPTS.get(label, {})
    env.update(opts.get("env", {}))
    ann = {k: getattr(core.celpy().celtypes, v) for k, v in opts.get("annotations", {}).items()}
    model = CountingModel(env, names)
    try:
        exp = ("V", model.ev(node))
    except lang.ModelErr:
        exp = ("E",)
    except lang.Unspec:
        return
    src = lang.to_text(node)
    del hostfuncs.LOG[:]
    out = core.api_eval(r, src, MV.cel_env(env), functions=supplied, annotations=ann or None)
    log = list(hostfuncs.LOG)
    if label.startswith("errarg"):
        acc.hook("erroring-argument")
    if label.startswith("clash"):
        acc.hook("name-spelled-like-a-function")
    acc.hook("evaluate:" + r)
    acc.hook("host-call", len(log))
    acc.evaluations += 1
    acc.nt([label, style, kind, r, xval])
    problems = []
    if not agrees(out, exp):
        problems.append(("outcome", f"obs={diag.oclass(out).split('@')[0]} exp={'E' if exp[0] == 'E' else 'V'}"))
    # call counts per site
    for n, (lo, hi) in sites.items():
        cnt = sum(1 for c in log if c[0] == n)
        if not (lo <= cnt <= hi):
            problems.append(("call-count", f"{'never-called' if cnt == 0 else ('too-many' if cnt > hi else 'too-few')}"))
    # received arguments == reference argument values, in order, for strict programs
    if all(lo == hi for lo, hi in sites.values()) and not any(p[0] == "call-count" for p in problems):
        want = sorted((n, [MV.canon_of(a) for a in args]) for n, args in model.calls)
        got = sorted((n, args) for n, args in log)
        if core.jkey(want) != core.jkey(got):
            problems.append(("arguments", "received-args-differ"))
    if any(isinstance(a, list) and a and a[0] == "<error-object>" for c in log for a in c[1]):
        problems.insert(0, ("arguments", "received-a-non-CEL-argument"))
    acc.cell(label, style, kind, r, "ok" if not problems else problems[0][0])
    for what, detail in problems[:1]:
        shape = "method" if node.k == "meth" or any(x.k == "meth" and x.a[0] in sites for x in lang.walk(node)) else "function"
        if label.startswith("errarg"):
            origin = "host-returned-error" if "herr" in sites else ("host-raised-error" if "hval" in sites else "operator-error")
            shape = f"errarg {origin} {shape}"
        acc.violation(
            f"{r} {kind} {style} {shape} {what} {detail}",
            f"{'interpreted' if r == 'I' else 'compiled'} [{style}, {kind}] {src!r}: {what} {detail}; outcome {core.jkey(out)[:100]}; calls {str(log)[:120]}",
            {"label": label, "style": style, "kind": kind, "runner": r, "x": xval},
        )


def override_isolation(acc, r):
    """A supplied function named like a built-in replaces it for this program only."""
    c = core.celpy()
    import celpy.evaluation as ev

    acc.hook("override-isolation")
    before = dict(ev.base_functions)
    rc = core.runner_class(r)
    env_a = c.Environment(runner_class=rc)
    env_b = c.Environment(runner_class=rc)
    results = []
    try:
        prog_a = env_a.program(env_a.compile("size([1, 2]) + (('abc'.contains('zzz')) ? 100 : 0)"), functions={"size": hostfuncs.size, "contains": hostfuncs.contains})
        prog_b = env_b.program(env_b.compile("size([1, 2]) + (('abc'.contains('zzz')) ? 100 : 0)"))
        prog_c = env_a.program(env_a.compile("size([1, 2, 3])"))
        for p in (prog_a, prog_b, prog_a, prog_c, prog_b):
            try:
                results.append(int(p.evaluate({})))
            except Exception as ex:
                results.append(type(ex).__name__)
    except Exception as ex:
        results = ["construction " + type(ex).__name__]
    acc.evaluations += 5
    acc.nt(["override", r])
    want = [99, 2, 99, 3, 2]
    if results != want:
        leak = len(results) == 5 and (results[1] != 2 or results[3] != 3 or results[4] != 2)
        acc.violation(
            f"{r} override {'leaks-into-other-program' if leak else 'not-applied'} {'' if leak else str(results[0])[:30]}".strip(),
            f"override of size/contains: programs [with, without, with, other-without, without] gave {results}, expected {want}",
            {"label": "override", "runner": r},
        )
    if dict(ev.base_functions) != before:
        acc.violation(f"{r} override mutates-base_functions", "celpy.evaluation.base_functions changed after building a program with overrides", {"label": "override", "runner": r})


def shared_ast(acc, r):
    """Functions are bound per program: several programs built from ONE compiled AST (with an override, without, with another
    function of the same name), evaluated in every order, must each call their own functions."""
    c = core.celpy()
    acc.hook("shared-ast")
    src = "size([1, 2]) + [5, 6, 7].size() + [[1], [1, 2]].map(e, size(e))[1] + h1(1)"

    def other_size(x):
        return c.celtypes.IntType(1000)

    def other_h1(x):
        return c.celtypes.IntType(int(x) + 500)

    variants = {
        "override": {"size": hostfuncs.size, "h1": hostfuncs.h1},
        "plain": {"h1": hostfuncs.h1},
        "other": {"size": other_size, "h1": other_h1},
        "list": [hostfuncs.h1],
    }
    want = {"override": -1 - 1 - 1 + 2, "plain": 2 + 3 + 2 + 2, "other": 3000 + 501, "list": 2 + 3 + 2 + 2}
    for order in itertools.permutations(sorted(variants), 3):
        try:
            env = c.Environment(runner_class=core.runner_class(r))
            ast = env.compile(src)
            progs = {k: env.program(ast, functions=variants[k]) for k in order}
        except Exception as ex:
            acc.violation(f"{r} shared-ast construction X:{type(ex).__name__}", f"building programs {order} from one AST of {src!r}: {type(ex).__name__} {core._msg(ex)}", {"label": "shared-ast", "runner": r})
            return
        got = {}
        for k in list(order) + list(reversed(order)):
            try:
                got.setdefault(k, []).append(int(progs[k].evaluate({})))
            except Exception as ex:
                got.setdefault(k, []).append(type(ex).__name__)
        acc.evaluations += 6
        acc.nt(["shared-ast", r, list(order)])
        bad = {k: v for k, v in got.items() if v != [want[k], want[k]]}
        acc.cell("shared-ast", r, "ok" if not bad else "differ")
        if bad:
            k = sorted(bad)[0]
            acc.violation(
                f"{r} shared-ast program-calls-another-program's-functions variant={k}",
                f"programs {order} built from ONE compiled AST of {src!r} and evaluated in that order and back: the {k!r} program gave {bad[k]}, expected {want[k]} twice",
                {"label": "shared-ast", "runner": r},
            )
            return


def unbound(acc, r):
    for src in ("nofunc(1)", "(1).nofunc()", "nofunc()", "'a'.nofunc(1, 2)", "h1(1)", "[1].map(e, nofunc(e))", "true || nofunc(1) == 1"):
        out = core.api_eval(r, src, {})
        acc.hook("unbound")
        acc.evaluations += 1
        acc.nt(["unbound", src, r])
        want_true = src.startswith("true ||")
        if (out[0] != "E") != want_true or (want_true and out != ["V", ["BoolType", True]]):
            acc.violation(f"{r} unbound-function obs={diag.oclass(out).split('@')[0]}", f"{src!r} with no such function supplied gave {core.jkey(out)[:80]}", {"label": "unbound", "src": src, "runner": r})


def run(ctx):
    acc = ctx.acc
    rnd = ctx.rnd
    core.celpy()
    k = 0
    xs = [0, 3, 4, 7] if not ctx.thorough else [0, 1, 2, 3, 4, 7, -1, 1000, 2**40, -5]
    for (label, node, sites), style, kind, r in itertools.product(PROGRAMS, ("list", "dict"), KINDS, "IC"):
        k += 1
        if not ctx.mine(k):
            continue
        for xv in xs:
            run_case(acc, label, node, sites, style, kind, r, xv)
    acc.exhaustive.append(f"{len(PROGRAMS)} call shapes x 2 supplying styles x 4 callable kinds x 2 runners")
    for _ in range(ctx.scale(2400, 160000)):
        if ctx.expired():
            break
        random_case(acc, rnd, rnd.choice("IC"), rnd.choice(["list", "dict"]), rnd.choice(KINDS))
    if ctx.worker == 0:
        for r in "IC":
            override_isolation(acc, r)
            shared_ast(acc, r)
            unbound(acc, r)
    acc.sample({"program": "[1, 2, 3].map(e, e.h2(x))", "style": "dict", "kind": "lambda", "expected_calls": 3})
    acc.sample({"program": "hval(x) || true", "style": "list", "kind": "module-def", "expected": True})


def replay(case):
    core.celpy()
    acc = core.Acc()
    if case["label"] == "override":
        override_isolation(acc, case["runner"])
    elif case["label"] == "unbound":
        unbound(acc, case["runner"])
    elif case["label"] == "shared-ast":
        shared_ast(acc, case["runner"])
    elif case["label"] == "random":
        names = ["h0", "h1", "h2", "h3", "hb"]
        funcs = make_functions(case["kind"], names)
        del hostfuncs.LOG[:]
        out = core.api_eval(case["runner"], case["src"], MV.cel_env({"x": ("int", case["x"])}), functions=list(funcs.values()) if case["style"] == "list" else funcs)
        return True, f"{case['src']!r}: outcome {out}; calls received {hostfuncs.LOG}"
    else:
        for label, node, sites in PROGRAMS:
            if label == case["label"]:
                run_case(acc, label, node, sites, case["style"], case["kind"], case["runner"], case["x"])
    return not acc.violations, "\n".join(v["what"] for v in acc.violations) or "held"
