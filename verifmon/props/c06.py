"""C06  Parser implements CEL precedence and associativity; AST dump round-trips."""

from __future__ import annotations

import itertools

from .. import core, corpus, diag, lang, larkconv, mv as MV
from ..lang import Node, P_PRIMARY, P_UNARY

ID = "C06"
READY = True
LEVEL = "exploration"
WORKERS = {"quick": 8, "thorough": 16}
BUDGET = {"quick": 150, "thorough": 420}
MIN_NONTRIVIAL = {"quick": 3000, "thorough": 40000}
REQUIRED_HOOKS = ["parse", "tree_dump", "corpus", "lookalike-pair", "second-parser-parse"]
RULE = (
    "Intended trees are built by the harness (operators: 14 binary, ! and -, ?:, .f, .f(), .f(x), [i], g(x), g(x,y), list, map, message construction, has()), "
    "printed (a) with the minimal parentheses CEL's precedence table requires, (b) fully parenthesised, (c) with random whitespace and // comments, and parsed "
    "with CELParser; the normalised parse (single-child chains and parenthesis nodes collapsed, -N literal == neg(N)) must equal the intended tree in all three "
    "cases, and parse(tree_dump(parse(s))) must equal parse(s). Every tree with exactly 2 operator nodes (all outer-operator x operand-slot x inner-operator "
    "pairs) is enumerated, triples are enumerated in the thorough tier and sampled in the quick tier, plus random trees up to 30 nodes with literal leaves of every "
    "token kind (true/false/null included), and every corpus expression for the round trip; look-alike pairs (two different expressions whose texts coincide after "
    "collapsing whitespace / turning a comment's newline into a blank / folding case / normalising Unicode / stripping blanks inside a literal) parsed one after the "
    "other in one process, each against its own intended tree. distinct_nontrivial = distinct trees with >= 2 operators."
)
TECHNIQUE = (
    "runtime monitoring: parser and tree_dump observed on harness-built trees (all operator pairs, sampled/enumerated triples, random trees, look-alike text pairs) against the intended tree; dump round trip"
)
ASSUMPTIONS = [
    "the harness's own precedence table (CEL langdef: ?: lowest and right-associative, ||, &&, relations, + -, * / %, unary, member) is the specification",
    "the lexer folds a leading '-' into a numeric literal where a literal may start (cel-spec issue 126); neg(literal N) and literal(-N) are identified",
    "a ternary middle operand that is itself a ternary is generated only parenthesised (CEL grammar)",
]

BINOPS = ["||", "&&", "<", "<=", ">", ">=", "==", "!=", "in", "+", "-", "*", "/", "%"]
# (name, arity)
OPS = [("bin:" + o, 2) for o in BINOPS] + [
    ("un:!", 1), ("un:-", 1), ("cond", 3), ("field", 1), ("meth0", 1), ("meth1", 2), ("index", 2), ("call1", 1), ("call2", 2),
    ("list1", 1), ("list2", 2), ("map1", 2), ("obj1", 1), ("has", 1), ("macro", 2),
]


def mk(op: str, kids) -> Node:
    if op.startswith("bin:"):
        return Node("bin", None, op[4:], kids[0], kids[1])
    if op.startswith("un:"):
        return Node("un", None, op[3:], kids[0])
    if op == "cond":
        return Node("cond", None, *kids)
    if op == "field":
        return Node("field", None, kids[0], "f")
    if op == "meth0":
        return Node("meth", None, "m", kids[0])
    if op == "meth1":
        return Node("meth", None, "m", kids[0], kids[1])
    if op == "index":
        return Node("index", None, kids[0], kids[1])
    if op == "call1":
        return Node("call", None, "g", kids[0])
    if op == "call2":
        return Node("call", None, "g", kids[0], kids[1])
    if op == "list1":
        return Node("list", None, kids[0])
    if op == "list2":
        return Node("list", None, kids[0], kids[1])
    if op == "map1":
        return Node("map", None, (kids[0], kids[1]))
    if op == "obj1":
        return Node("obj", None, Node("var", None, "T"), (("fld", kids[0]),))
    if op == "has":
        return Node("has", None, kids[0], "f")
    if op == "macro":
        return Node("macro", None, "exists", kids[0], "it", kids[1])
    raise ValueError(op)


class Leaves:
    def __init__(self, literals=None):
        self.i = 0
        self.literals = literals

    def next(self) -> Node:
        self.i += 1
        if self.literals:
            return self.literals[self.i % len(self.literals)]
        return Node("var", None, "abcdefghijk"[self.i % 11] + str(self.i))


LITERAL_LEAVES = [
    ("true", "BOOL_LIT"), ("false", "BOOL_LIT"), ("null", "NULL_LIT"), ("1", "INT_LIT"), ("0x1F", "INT_LIT"), ("2u", "UINT_LIT"), ("1.5", "FLOAT_LIT"), ("1e3", "FLOAT_LIT"),
    (".5", "FLOAT_LIT"), ('"s"', "STRING_LIT"), ("'it\\'s'", "STRING_LIT"), ('r"\\d"', "STRING_LIT"), ('"""a\nb"""', "MLSTRING_LIT"), ("b'x'", "BYTES_LIT"), ('"a // not a comment"', "STRING_LIT"),
    ("-3", "INT_LIT"), ("-2.5", "FLOAT_LIT"), ("[]", None), ("{}", None), ("T{}", None), (".lead", None), ("x", None), ("truex", None), ("nullable", None), ("falsey", None), ("in_", None),
]


def literal_leaf(rnd) -> Node:
    txt, tok = rnd.choice(LITERAL_LEAVES)
    if txt == "[]":
        return Node("list", None)
    if txt == "{}":
        return Node("map", None)
    if txt == "T{}":
        return Node("obj", None, Node("var", None, "T"), ())
    if txt == ".lead":
        return Node("raw", None, ".lead", "U", P_PRIMARY, "dot_ident")
    if tok is None:
        return Node("var", None, txt)
    return Node("raw", None, txt, "U", P_UNARY if txt.startswith("-") else P_PRIMARY, "literal:" + tok)


def trees(k: int, leaves: Leaves):
    """All trees with exactly k operator nodes (generator of Node)."""
    if k == 0:
        yield leaves.next()
        return
    for op, ar in OPS:
        for split in compositions(k - 1, ar):
            for kids in itertools.product(*[list(trees(j, leaves)) for j in split]):
                yield mk(op, list(kids))


def compositions(n, parts):
    if parts == 1:
        yield (n,)
        return
    for i in range(n + 1):
        for rest in compositions(n - i, parts - 1):
            yield (i,) + rest


def full_parens(n: Node) -> str:
    """Fully parenthesised rendering (every operator application wrapped)."""
    P = full_parens
    k = n.k
    if k in ("lit", "var", "raw"):
        s = lang.to_text(n)
        return "(" + s + ")" if s.startswith("-") else s
    if k == "un":
        return "(" + n.a[0] + P(n.a[1]) + ")"
    if k == "bin":
        return "(" + P(n.a[1]) + " " + n.a[0] + " " + P(n.a[2]) + ")"
    if k == "cond":
        return "(" + P(n.a[0]) + " ? " + P(n.a[1]) + " : " + P(n.a[2]) + ")"
    if k == "call":
        return n.a[0] + "(" + ", ".join(P(x) for x in n.a[1:]) + ")"
    if k == "meth":
        return "(" + P(n.a[1]) + ")." + n.a[0] + "(" + ", ".join(P(x) for x in n.a[2:]) + ")"
    if k == "index":
        return "(" + P(n.a[0]) + ")[" + P(n.a[1]) + "]"
    if k == "field":
        return "(" + P(n.a[0]) + ")." + n.a[1]
    if k == "has":
        return "has((" + P(n.a[0]) + ")." + n.a[1] + ")"
    if k == "list":
        return "[" + ", ".join(P(x) for x in n.a) + "]"
    if k == "map":
        return "{" + ", ".join(P(a) + ": " + P(b) for a, b in n.a) + "}"
    if k == "obj":
        return lang.to_text(n.a[0]) + "{" + ", ".join(f + ": " + P(v) for f, v in n.a[1]) + "}"
    if k == "macro":
        return "(" + P(n.a[1]) + ")." + n.a[0] + "(" + n.a[2] + ", " + P(n.a[3]) + ")"
    raise ValueError(k)


def norm(sx):
    """neg(literal N) == literal(-N) for numeric N; applied bottom-up."""
    if not isinstance(sx, list):
        return sx
    sx = [norm(x) for x in sx]
    if len(sx) == 2 and sx[0] == "-" and isinstance(sx[1], list) and sx[1] and sx[1][0] == "tok":
        t = sx[1][1]
        if t[:1].isdigit() or (t[:1] == "." and t[1:2].isdigit()):
            return ["tok", "-" + t]
    return sx


class Env:
    def __init__(self, acc, tree_class_name):
        c = core.celpy()
        self.acc = acc
        import celpy.celparser as cp

        self.cp = cp
        if tree_class_name == "lark.Tree":
            import lark

            c.CELParser.CEL_PARSER = None
            self.parser = c.CELParser(tree_class=lark.Tree)
        else:
            c.CELParser.CEL_PARSER = None
            self.parser = c.CELParser(tree_class=c.TranspilerTree)
        self.tc = tree_class_name

    def parse_sx(self, text: str):
        self.acc.hook("parse")
        self.acc.evaluations += 1
        tree = self.parser.parse(text)
        return tree, norm(larkconv.sexpr(larkconv.conv(tree)))

    def literal_kinds_ok(self, tree) -> bool:
        """true/false/null must be literal tokens, never identifiers."""
        for sub in tree.iter_subtrees():
            if sub.data == "ident" and str(sub.children[0]) in ("true", "false", "null"):
                return False
        return True


def check_tree(env: Env, n: Node, rnd, origin: str, localise=True) -> bool:
    acc = env.acc
    want = norm(larkconv.sexpr(n))
    ops = sum(1 for x in lang.walk(n) if x.k not in ("lit", "var", "raw"))
    if ops >= 2:
        acc.nt(want)
    ok = True
    s_min = lang.to_text(n)
    variants = [("minimal", s_min), ("parenthesised", full_parens(n)), ("whitespace", lang.to_text(n, rnd, 0.6))]
    base_tree = None
    for kind, text in variants:
        try:
            tree, got = env.parse_sx(text)
            if kind == "minimal":
                base_tree = tree
            good = got == want and env.literal_kinds_ok(tree)
            why = "" if good else f"parsed as {core.jkey(got)[:200]} instead of {core.jkey(want)[:200]}"
        except Exception as ex:
            good = False
            why = f"{type(ex).__name__}: {core._msg(ex)[:80]}"
        acc.cell(kind, origin, env.tc, "ok" if good else "mismatch")
        if not good and not ok:
            continue  # one report per tree: the first failing variant names the mechanism
        if not good:
            ok = False
            m = n
            if localise:
                lk = "minimal" if kind == "whitespace" and not quick_ok(env, n, "minimal", rnd) else kind
                m = diag.localize(n, lambda x: not quick_ok(env, x, lk, rnd), limit=200, closed=False)
            acc.violation(
                f"{kind} {describe(m)}",
                f"[{env.tc}] {text[:120]!r} {why}; minimal sub-tree {lang.to_text(m)[:80]!r}",
                {"kind": kind, "text": text, "want": want, "tree_class": env.tc},
            )
    # dump round trip
    if base_tree is not None and ok:
        rt_ok, why, dumped = roundtrip(env, base_tree, want)
        acc.cell("roundtrip", origin, env.tc, "ok" if rt_ok else "mismatch")
        if not rt_ok:
            ok = False
            m = n
            if localise:
                m = diag.localize(n, lambda x: not roundtrip_node(env, x), limit=200, closed=False)
            acc.violation(
                f"roundtrip {describe(m)}",
                f"[{env.tc}] tree_dump(parse({s_min[:100]!r})) = {dumped!r:.120}: {why}; minimal sub-tree {lang.to_text(m)[:80]!r}",
                {"kind": "roundtrip", "text": s_min, "tree_class": env.tc},
            )
    return ok


def describe(m: Node) -> str:
    """Structural description of the minimal mismatching sub-tree."""
    if m.k == "un" and m.a[0] == "-":
        x = m.a[1]
        depth = 0
        while x.k in ("meth", "field", "index", "macro"):
            x = x.a[1] if x.k in ("meth", "macro") else x.a[0]
            depth += 1
        if depth and x.k == "raw" and str(x.a[3]).startswith("literal:") and x.a[3].split(":")[1] in ("INT_LIT", "UINT_LIT", "FLOAT_LIT") and not x.a[0].startswith("-"):
            return "minus-folds-into-numeric-literal-receiver"
    return diag.shape(m, diag.head)


def quick_ok(env, n, kind, rnd) -> bool:
    want = norm(larkconv.sexpr(n))
    text = {"minimal": lang.to_text, "parenthesised": full_parens}.get(kind, lambda x: lang.to_text(x, rnd, 0.6))(n)
    try:
        tree, got = env.parse_sx(text)
        return got == want and env.literal_kinds_ok(tree)
    except Exception:
        return False


def roundtrip(env, tree, want):
    env.acc.hook("tree_dump")
    try:
        dumped = env.cp.tree_dump(tree)
    except Exception as ex:
        return False, f"tree_dump raised {type(ex).__name__}", None
    try:
        _, got = env.parse_sx(dumped)
    except Exception as ex:
        return False, f"re-parse raised {type(ex).__name__}", dumped
    if got != want:
        return False, f"re-parsed as {core.jkey(got)[:160]}", dumped
    return True, "", dumped


def roundtrip_node(env, n) -> bool:
    try:
        tree, want = env.parse_sx(lang.to_text(n))
    except Exception:
        return True
    return roundtrip(env, tree, want)[0]


def rand_tree(rnd, nops, lits) -> Node:
    if nops <= 0:
        return literal_leaf(rnd) if rnd.random() < lits else Node("var", None, rnd.choice(["a", "b", "c", "x1", "_y", "T", "ab_c"]))
    op, ar = rnd.choice(OPS)
    rest = nops - 1
    split = [0] * ar
    for _ in range(rest):
        split[rnd.randrange(ar)] += 1
    kids = [rand_tree(rnd, j, lits) for j in split]
    if op == "obj1" and rnd.random() < 0.3:
        return Node("obj", None, Node("field", None, Node("var", None, "pkg"), "Msg"), (("fld", kids[0]), ("g", Node("var", None, "z"))))
    return mk(op, kids)


def raw_str(txt, kind="STRING_LIT"):
    return Node("raw", None, txt, "U", P_PRIMARY, "literal:" + kind)


def check_lookalikes(env: Env, a: Node, b: Node, rnd):
    """Pairs of DIFFERENT expressions whose texts coincide after a harmless-looking normalisation (runs of whitespace collapsed,
    newline = blank, case folded, Unicode normalised, surrounding blanks stripped): each must parse to its own tree, whichever
    of the two this process parsed first."""
    acc = env.acc
    try:
        A, B = lang.to_text(a), lang.to_text(b)
    except ValueError:
        return
    tail = rnd.choice(["tail", "c + d", "x ? y : z", "'q'"])
    ws = rnd.choice([" ", "  ", "\t"])

    def g(lit, node, kind="STRING_LIT"):
        return Node("call", None, "g", raw_str(lit, kind), node)

    pairs = [
        ("comment-newline", f"({A}) // {tail} + ({B})", a, f"({A}) // {tail}\n + ({B})", Node("bin", None, "+", a, b)),
        ("comment-newline", f"({A}) //{tail}{ws}&& ({B})", a, f"({A}) //{tail}\n{ws}&& ({B})", Node("bin", None, "&&", a, b)),
        ("string-blanks", f'g("x  y", {A})', g('"x  y"', a), f'g("x y", {A})', g('"x y"', a)),
        ("string-newline", f"g('''x\ny''', {A})", g("'''x\ny'''", a, "MLSTRING_LIT"), f"g('''x y''', {A})", g("'''x y'''", a, "MLSTRING_LIT")),
        ("identifier-case", f"abc && ({A})", Node("bin", None, "&&", Node("var", None, "abc"), a), f"ABC && ({A})", Node("bin", None, "&&", Node("var", None, "ABC"), a)),
        ("string-case", f"g('ab', {A})", g("'ab'", a), f"g('aB', {A})", g("'aB'", a)),
        ("unicode-normal-form", "g('\u00e9', " + A + ")", g("'\u00e9'", a), "g('e\u0301', " + A + ")", g("'e\u0301'", a)),
        ("quote-style", f"g('ab', {B})", g("'ab'", b), f'g("ab", {B})', g('"ab"', b)),
        ("surrounding-blanks-in-literal", f"g(' ab ', {B})", g("' ab '", b), f"g('ab', {B})", g("'ab'", b)),
    ]
    if "\n" in B:
        pairs = pairs[2:]  # a newline inside B would end the comment in the middle of B
    kind, t1, n1, t2, n2 = rnd.choice(pairs)
    order = [(t1, n1), (t2, n2)]
    if rnd.random() < 0.5:
        order.reverse()
    acc.hook("lookalike-pair")
    for pos, (text, node) in enumerate(order):
        want = norm(larkconv.sexpr(node))
        try:
            _, got = env.parse_sx(text)
            why = "" if got == want else f"parsed as {core.jkey(got)[:160]} instead of {core.jkey(want)[:160]}"
        except Exception as ex:
            got, why = None, f"{type(ex).__name__}: {core._msg(ex)[:80]}"
        acc.cell("lookalike", kind, env.tc, "first" if pos == 0 else "second", "ok" if not why else "mismatch")
        if why:
            acc.violation(
                f"lookalike {kind} {'first' if pos == 0 else 'second'}-of-pair",
                f"[{env.tc}] {text[:140]!r} {why} (the look-alike text {order[1 - pos][0][:80]!r} is parsed {'after' if pos == 0 else 'before'} it in the same process)",
                {"kind": "lookalike", "texts": [order[0][0], order[1][0]], "wants": [norm(larkconv.sexpr(order[0][1])), norm(larkconv.sexpr(order[1][1]))], "tree_class": env.tc},
            )
            return
    acc.nt(["lookalike", kind, t1])


HAND = [
    "--a", "- -a", "!!a", "!-a", "-!a", "- - 1", "--1", "a - -1", "a -1", "a-1", "1-1", "1 - 1", "2 * -1", "-1 * 2", "-a.f", "-a[0]", "-a.f(b)[c]", "!a.f()", "!a in b + c * d",
    "a == b == c", "a < b < c", "a in b in c", "a ? b : c ? d : e", "(a ? b : c) ? d : e", "a ? (b ? c : d) : e", "a || b ? c : d", "a ? b || c : d && e", "a ? b : c || d",
    "a || b && c", "a && b || c", "(a || b) && c", "a + b * c", "(a + b) * c", "a * b + c", "a - b - c", "a - (b - c)", "a / b / c", "a / (b / c)", "a % b * c", "a * b % c",
    "a + b < c - d", "a < b == c > d", "a == b && c != d || e", "!a && !b", "-a - -b", "a.b.c.d", "a.b(c).d[e].f()", "a[b][c]", "a[b[c]]", "f(g(h(x)))", "f(a, g(b, c), d)",
    "[a, [b, c], []]", "{a: {b: c}, d: []}", "{}", "[]", "[[]]", "[{}]", "{a: []}", "{a: {}}", "[] + []", "{} == {}", "a + []", "[] + a", "a + [] + b", "a[[]]", "f([])", "f({})", "f([], {})", "[].size()", "{}.size()",
    "[].f", "{}.f", "[][0]", "{}[a]", "a ? [] : {}", "[] ? a : b", "![]", "-[]", "a || []", "[] || a", "[a, []]", "[[], a]", "{a: b, c: {}}", "{[]: a}", "T{}", "T{f: []}", "T{f: {}}", "T{f: a, g: b}", "a.T{}", "a.b.T{f: 1}",
    ".a", ".a.b", ".a(b)", ".a()", ".a + .b", "has(a.b)", "has(a.b.c)", "has(a[b].c)", "a.map(x, x + 1)", "a.filter(x, x > 1).map(y, y * 2)", "a.all(x, x.exists(y, y == x))",
    "true", "false", "null", "true && false", "null == null", "truex", "nullable", "falsey", "true.f", "null.f", "[true, false, null]", "{true: null}", "f(true)", "!true", "-null",
    "a//c\n+b", "a /* not a comment */ b" , "a // x\n // y\n && b", "\ta\n&&\r\nb\f", "a// trailing", "// only\na", "a +// c\nb",
    '"a" + \'b\' + r"c" + b"d"', '"""x"""', "'''y'''", 'r"""z"""', "b'''w'''", '"\\""', "'\\''", '"\\\\"', '"a\\nb"', '"//"', "'a // b' + c",
    "1 + 2u + 3.0 + 0x1F + 1e3 + .5 + 5.", "1.5e-3", "1E+5", "0xFFu", "-0x10", "-1u", "- 1u", "1u", "1U",
]


def run(ctx):
    acc = ctx.acc
    rnd = ctx.rnd
    env = Env(acc, "TranspilerTree" if ctx.worker % 2 == 0 else "lark.Tree")
    acc.extra["tree_classes"] = [env.tc]

    # exhaustive pairs (every worker pair of tree classes covers all pairs: partition by i // 2)
    i = 0
    for n in trees(2, Leaves()):
        i += 1
        if (i // 1) % (max(1, ctx.nworkers // 2)) == ctx.worker // 2:
            check_tree(env, n, rnd, "pairs")
    acc.extra["pairs_enumerated"] = i
    acc.exhaustive.append("all trees with exactly 2 operator nodes (outer operator x slot x inner operator), for both tree classes")

    # hand-written texts: whitespace/comment handling, literals, empty containers (round trip + self-consistency)
    for j, text in enumerate(HAND):
        if not ctx.mine(j // 2 * 2 + (ctx.worker % 2)) and ctx.nworkers > 2:
            continue
        check_text(env, text, "hand")

    # corpus round trip
    items = corpus.load()
    for j, it in enumerate(items):
        if (j % max(1, ctx.nworkers // 2)) != ctx.worker // 2:
            continue
        check_text(env, it["expr"], "corpus")
        acc.hook("corpus")

    # triples
    if ctx.thorough:
        i = 0
        for n in trees(3, Leaves()):
            i += 1
            if (i % max(1, ctx.nworkers // 2)) == ctx.worker // 2:
                check_tree(env, n, rnd, "triples")
            if ctx.expired():
                break
        else:
            acc.exhaustive.append("all trees with exactly 3 operator nodes, for both tree classes")
        acc.extra["triples_enumerated"] = i
    else:
        pool = None
        nsample = ctx.scale(6000, 0)
        # sample triples without materialising: random trees with exactly 3 ops
        for _ in range(nsample):
            check_tree(env, rand_tree(rnd, 3, 0.0), rnd, "triples-sampled")

    # random trees with literal leaves of every token kind
    n = ctx.scale(6000, 320000)
    for j in range(n):
        if ctx.expired():
            break
        t = rand_tree(rnd, rnd.randint(1, 12), rnd.choice([0.0, 0.3, 0.8]))
        if lang.size(t) > 30:
            continue
        if j % 400 == 0:
            failing_dump(env, rnd)
        t_ok = check_tree(env, t, rnd, "random")
        if j % 3 == 0 and t_ok:
            # only trees that parse as intended on their own (a tree that hits a listed finding is reported by check_tree)
            t2 = rand_tree(rnd, rnd.randint(0, 3), 0.3)
            if quick_ok(env, t2, "minimal", rnd):
                check_lookalikes(env, t, t2, rnd)
        if j % 1999 == 0:
            acc.sample({"text": lang.to_text(t), "tree": norm(larkconv.sexpr(t))})
    second_parser_phase(ctx, env, items)
    core.celpy().CELParser.CEL_PARSER = None


KEYWORD_TEXTS = [
    "true", "false", "null", "x == true", "true ? false : null", "[true, false, null]", "!true", "!false || null == x", "{true: false, 'n': null}", "f(true, null)",
    "true.f", "x.true", "true in [false]", "truex", "nullable", "falsey && true", "- true", "true[0]", "a ? true : false ? null : true", "true // false\n && null",
]


def second_parser_phase(ctx, env, items, only=None):
    """The parser an application gets SECOND in a process: for the other kind of tree node, obtained through Environment (as
    applications do) while the first parser exists.  Every text must give the tree the first parser gives, with true/false/null as
    literals, and must round-trip through the dump."""
    acc = env.acc
    rnd = ctx.rnd
    c = core.celpy()
    other_runner = c.InterpretedRunner if env.tc == "TranspilerTree" else c.CompiledRunner
    app_env = c.Environment(runner_class=other_runner)
    second = Env.__new__(Env)
    second.acc, second.cp, second.parser = acc, env.cp, app_env.cel_parser
    second.tc = ("lark.Tree" if env.tc == "TranspilerTree" else "TranspilerTree") + " (second parser of the process)"
    acc.extra["tree_classes"] = acc.extra.get("tree_classes", []) + [second.tc]
    texts = KEYWORD_TEXTS + HAND + [it["expr"] for j, it in enumerate(items) if (j % max(1, ctx.nworkers * 3)) == ctx.worker]
    if only is not None:
        texts = list(only)
    for _ in range(ctx.scale(800, 16000) if only is None else 0):
        t = rand_tree(rnd, rnd.randint(1, 6), rnd.choice([0.3, 0.8]))
        try:
            texts.append(lang.to_text(t))
        except ValueError:
            pass
    for text in texts:
        try:
            _, first_sx = env.parse_sx(text)
        except Exception:
            first_sx = None
        try:
            tree2, second_sx = second.parse_sx(text)
        except larkconv.Unsupported:
            continue
        except Exception:
            second_sx, tree2 = None, None
        acc.hook("second-parser-parse")
        same = first_sx == second_sx
        lit_ok = tree2 is None or second.literal_kinds_ok(tree2)
        acc.cell("second-parser", env.tc, "agree" if same and lit_ok else "differ")
        if not lit_ok:
            acc.violation("keyword-literal-parsed-as-identifier second-parser", f"[{second.tc}] {text!r}: true/false/null parsed as identifier", {"kind": "second-parser", "text": text, "tree_class": env.tc})
        elif not same:
            acc.violation("second-parser-tree-differs-from-first", f"{text[:100]!r}: parsed as {str(second_sx)[:100]} by the {second.tc}, as {str(first_sx)[:100]} by the first ({env.tc})", {"kind": "second-parser", "text": text, "tree_class": env.tc})
        elif tree2 is not None:
            check_text(second, text, "second-parser")


def failing_dump(env: Env, rnd):
    """A dump that fails (an expression nested far beyond CEL's limits exhausts the recursion limit inside the dump visitor; whether
    it raises or returns is not judged) must not leave anything behind: the round trips that follow are judged as usual."""
    depth = rnd.choice([300, 600, 1200])
    text = rnd.choice(["a + ", "f(b) * ", "!"]) + "(" * depth + "x" + ")" * depth
    env.acc.hook("failing-dump-attempt")
    try:
        tree = env.parser.parse(text)
    except Exception:
        return
    try:
        env.cp.tree_dump(tree)
        env.acc.hook("deep-dump-returned")
    except BaseException as ex:  # RecursionError expected
        env.acc.hook("deep-dump-raised:" + type(ex).__name__)
    for follow in ("b * c", "[1, 2].map(x, x)", "p ? q : r"):
        check_text(env, follow, "after-failing-dump")


def check_text(env: Env, text: str, origin: str):
    """Arbitrary accepted text: literals-are-literals and the dump round trip."""
    acc = env.acc
    try:
        tree, want = env.parse_sx(text)
    except larkconv.Unsupported:
        return
    except Exception:
        return
    acc.nt(["text", text])
    if not env.literal_kinds_ok(tree):
        acc.violation("keyword-literal-parsed-as-identifier", f"{text!r}: true/false/null parsed as identifier", {"kind": "text", "text": text, "tree_class": env.tc})
    rt_ok, why, dumped = roundtrip(env, tree, want)
    acc.cell("roundtrip", origin, env.tc, "ok" if rt_ok else "mismatch")
    if not rt_ok:
        try:
            node = larkconv.conv(tree)
            m = diag.localize(node, lambda x: not roundtrip_node(env, x), limit=200, closed=False)
            shape = describe(m)
        except Exception:
            shape = "?"
        acc.violation(f"roundtrip {shape}", f"[{env.tc}] tree_dump(parse({text[:100]!r})) = {dumped!r:.120}: {why}", {"kind": "roundtrip", "text": text, "tree_class": env.tc})


def replay(case):
    acc = core.Acc()
    env = Env(acc, case.get("tree_class", "TranspilerTree"))
    if case["kind"] == "lookalike":
        lines, ok = [], True
        for text, want in zip(case["texts"], case["wants"]):
            try:
                got = env.parse_sx(text)[1]
            except Exception as ex:
                got = type(ex).__name__
            ok = ok and got == want
            lines.append(f"{text!r} -> {core.jkey(got)[:200]} (intended {core.jkey(want)[:200]})")
        return ok, "\n".join(lines)
    text = case["text"]
    if case["kind"] == "second-parser":

        class C:
            worker, nworkers, rnd = 0, 10**9, __import__("random").Random(0)

            def scale(self, a, b):
                return 1

        second_parser_phase(C(), env, [], only=[text])
        return not acc.violations, f"{text!r}\n" + "\n".join(v["what"] for v in acc.violations[:3])
    if case["kind"] in ("roundtrip", "text"):
        check_text(env, text, "replay")
        return not acc.violations, f"{text!r}\n" + "\n".join(v["what"] for v in acc.violations)
    try:
        tree, got = env.parse_sx(text)
        ok = got == case["want"] and env.literal_kinds_ok(tree)
    except Exception as ex:
        got, ok = f"{type(ex).__name__}", False
    return ok, f"{text!r}\nparsed:   {got}\nintended: {case['want']}"
