"""C05  Evaluation is a function of expression and bindings, independent of history."""

from __future__ import annotations

import copy
import itertools
import json

from .. import core, diag, mv as MV, zygote

ID = "C05"
READY = True
LEVEL = "exploration"
WORKERS = {"quick": 8, "thorough": 16}
BUDGET = {"quick": 150, "thorough": 480}
MIN_NONTRIVIAL = {"quick": 100, "thorough": 600}
REQUIRED_HOOKS = ["history", "evaluate", "reference(zygote)", "bindings-snapshot", "re-evaluation", "fresh-process-crosscheck", "generated-program-evaluation", "evaluation-after-a-failure", "program-from-earlier-ast"]
RULE = (
    "Seeded random histories (length 5-60) over {create Environment (runner I/C x declarations none / simple / dotted a.b / package p with p.x), compile, build "
    "program (with/without host functions), evaluate (bindings: empty / plain / dotted / nested maps / values that make the program fail), parse error, failing "
    "construction}, with several live environments and programs interleaved and sources chosen to touch the shared state (macros, identifiers named CEL/ex_1, "
    "dotted references); plus every ordered pair and triple of (runner, declaration kind) environment creations followed by one evaluation in each. Every "
    "evaluation's outcome is compared with the same (declarations, runner, source, bindings) evaluated alone in a pristine process (fork of a helper that has "
    "imported the library and done nothing else; a sample is repeated in a brand-new interpreter); the caller's bindings are deep-compared before/after; every "
    "program is re-evaluated with equal bindings. distinct_nontrivial = distinct (previous operation, evaluation) contexts in which the evaluation was preceded by "
    "an operation on a different environment, program or bindings."
)
TECHNIQUE = (
    "runtime monitoring: operation histories (environments, programs, evaluations, failures) with every outcome compared to the same operation in a pristine process (fork server, cross-checked against fresh interpreters)"
)
ASSUMPTIONS = [
    "only outcomes and the caller's dict are verdict-bearing; snapshots of the parser singleton and module globals are evidence",
    "this is the only check whose workers do NOT create a CompiledRunner environment first (that order dependence is what it explores)",
]

DECLS = {
    "none": (None, None),
    "simple": ({"n": "IntType", "s": "StringType"}, None),
    "dotted": ({"a.b": "IntType", "a.c": "IntType"}, None),
    "package": ({"p.x": "IntType"}, "p"),
    "package-bare": (None, "p"),  # a package without any declaration: which level a name resolves at depends on the call's bindings only
    # names declared as plain leaves that bindings later reach through (r.kind bound under a leaf-declared r), next to a dotted declaration
    "leaf": ({"r": "MapType", "n": "IntType", "a.b": "IntType"}, None),
    # declared names of three and four segments next to their shorter prefixes: per-call copies of the declaration tree have to reach every level
    "deep": ({"n": "IntType", "a.b": "IntType", "a.b.c": "IntType", "a.b.d": "IntType", "org.unit.team.cost": "IntType"}, None),
}
SOURCES = [
    ("n + 1", ["plain"]), ("s + '!'", ["plain"]), ("[1, 2, 3].map(x, x * n)", ["plain"]), ("n > 1 ? 'big' : 'small'", ["plain"]), ("n > 0 || 1 / n > 0", ["plain", "failing"]),
    ("a.b", ["dotted"]), ("a.b + a.c", ["dotted"]), ("has(m.k) ? m.k : 0", ["nested"]), ("has(m.k) ? 10 / m.k : -1", ["nested", "nested-zero"]), ("has(m.j) ? 100 : (has(m.k) ? 10 / m.k : -1)", ["nested", "nested-zero"]), ("m.k + n", ["nested"]), ("x", ["package"]), ("x + 1", ["package"]), ("p.x", ["package"]),
    ("CEL + ex_1", ["keywordish"]), ("[n, n].exists(e, e == n) && n < 10", ["plain"]), ("10 / n", ["plain", "failing"]), ("size(m) + [1].map(i, i)[0]", ["nested"]),
    ("1 + 1", ["empty"]), ("'lit' + 'eral'", ["empty"]), ("[3, 2, 1].filter(v, v > 1)", ["empty"]), ("h1(n)", ["plain", "host"]), ("n.h2(2)", ["plain", "host"]),
    # the same literal text cooked and raw (three positions apart: both spellings land in the same worker's slice)
    ('"a\\tb" + "|"', ["empty"]), ("'\\x41\\u00e9' + 'z'", ["empty"]), ('"""x\\ny""" + "|"', ["empty"]),
    ('r"a\\tb" + "|"', ["empty"]), ("r'\\x41\\u00e9' + 'z'", ["empty"]), ('r"""x\\ny""" + "|"', ["empty"]),
    # values that are equal (and hash equal) in Python but distinct in CEL: 0.0 / -0.0, 1 / 1u / 1.0 / true.  A memo keyed by Python
    # equality anywhere below evaluate() makes the outcome depend on which of them was seen first (same group = same worker slice).
    ("d / z", ["zeros"], "eqv"), ("[v, v]", ["twins"], "eqv"), ("1.0 / 0.0", ["empty"], "eqv"), ("1.0 / -0.0", ["empty"], "eqv"), ("-1.0 / 0.0", ["empty"], "eqv"),
    ("[1, 1u, 1.0, true]", ["empty"], "eqv"), ("[1.0, true, 1u, 1]", ["empty"], "eqv"), ("[0.0, -0.0]", ["empty"], "eqv"), ("[-0.0, 0.0]", ["empty"], "eqv"),
    ("{v: 'a'}", ["twins"], "eqv"), ("type(v)", ["twins"], "eqv"), ("v == v ? string(v) : 'ne'", ["twins"], "eqv"), ("double(z) / d", ["zeros"], "eqv"),
    ("v in [1, 2u, 3.0, true]", ["twins"], "eqv"), ("size(w)", ["sized"], "eqv"),
    # the same built-in name used plainly and overridden by a host function in another program ("override" = built with functions={size, contains})
    ("size([1, 2, 3]) + n", ["plain"], "ovr"), ("size([1, 2, 3]) + n", ["plain", "override"], "ovr"), ("'abc'.contains('zz') ? n : 0 - n", ["plain"], "ovr"),
    ("'abc'.contains('zz') ? n : 0 - n", ["plain", "override"], "ovr"), ("[1, 2].size() + size('ab') + n", ["plain", "override"], "ovr"), ("[1, 2].size() + size('ab') + n", ["plain"], "ovr"),
    # a dotted binding that passes through a name declared (or bound earlier) as a plain value, then the plain binding, and back
    ("r.kind", ["leafdot"], "leaf"), ("r.kind + '/' + string(n)", ["leafdot"], "leaf"), ("has(r.kind) ? r.kind : 'none'", ["leafdot"], "leaf"), ("a.b + n", ["leafdot"], "leaf"),
    # declared names of three or four segments; the bindings give them, omit them, give them again
    ("a.b.c", ["deep"], "deep"), ("a.b.c + a.b.d", ["deep"], "deep"), ("org.unit.team.cost * n", ["deep"], "deep"), ("has(a.b.c) ? a.b.c : -1", ["deep"], "deep"),
    # operands that print alike (str/repr drop sub-second parts) but differ, and the same comparison with the operands swapped
    ("duration('1s') == duration('1s')", ["empty"], "reprs"), ("duration('1500ms') == duration('1s')", ["empty"], "reprs"), ("duration('1500ms') > duration('1s')", ["empty"], "reprs"),
    ("duration('1s') > duration('1500ms')", ["empty"], "reprs"), ("timestamp('2020-01-01T00:00:00Z') == timestamp('2020-01-01T00:00:00Z')", ["empty"], "reprs"),
    ("timestamp('2020-01-01T00:00:00.000001Z') == timestamp('2020-01-01T00:00:00Z')", ["empty"], "reprs"), ("da == db", ["durs"], "reprs"), ("da < db", ["durs"], "reprs"),
    ("db < da", ["durs"], "reprs"), ("ta <= tb", ["stamps"], "reprs"), ("tb <= ta", ["stamps"], "reprs"), ("ta != tb", ["stamps"], "reprs"),
    # a name that is no function of the program, called; the bindings of some evaluations bind that name to a host callable (another one the
    # next time, none after that): whatever such a call evaluates to, it depends on the bindings of THAT call only
    ("scale(n)", ["callables"], "fnbind"), ("[n, n + 1].map(i, scale(i))", ["callables"], "fnbind"), ("n.scale()", ["callables"], "fnbind"), ("scale(n) > 0 || n > 0", ["callables"], "fnbind"),
]
BINDINGS = {
    "empty": [{}],
    "plain": [{"n": ("int", 1), "s": ("string", "a")}, {"n": ("int", 2), "s": ("string", "b")}, {"n": ("int", 5), "s": ("string", "")}, {"n": ("int", 7)}],
    "failing": [{"n": ("int", 0), "s": ("string", "z")}, {"s": ("string", "only-s")}],
    "dotted": [{"a.b": ("int", 1), "a.c": ("int", 10)}, {"a.b": ("int", 2), "a.c": ("int", 20)}, {"a.b": ("int", 3)}, {}],
    "deep": [
        {"n": ("int", 3), "a.b.c": ("int", 5), "a.b.d": ("int", 6), "org.unit.team.cost": ("int", 7)}, {"n": ("int", 4)}, {"n": ("int", 2), "a.b.c": ("int", 11), "org.unit.team.cost": ("int", 13)},
        {"n": ("int", 4), "a.b.d": ("int", 1)}, {"a.b": ("map", ((("string", "c"), ("int", 21)), (("string", "d"), ("int", 22)))), "n": ("int", 1)}, {},
    ],
    "nested": [{"m": ("map", ((("string", "k"), ("int", 4)),)), "n": ("int", 1)}, {"m": ("map", ()), "n": ("int", 2)}, {"m": ("map", ((("string", "k"), ("int", 9)), (("string", "j"), ("int", 1)))), "n": ("int", 3)}],
    "nested-zero": [{"m": ("map", ((("string", "k"), ("int", 0)),)), "n": ("int", 1)}, {"m": ("map", ((("string", "k"), ("int", 0)), (("string", "j"), ("int", 0)))), "n": ("int", 2)}, {}],
    "package": [{"p.x": ("int", 11)}, {"x": ("int", 12)}, {"p.x": ("int", 13), "x": ("int", 14)}, {}],
    "keywordish": [{"CEL": ("int", 100), "ex_1": ("int", 1)}, {"CEL": ("int", 200), "ex_1": ("int", 2)}, {}],
    "zeros": [{"d": ("double", 1.0), "z": ("double", 0.0)}, {"d": ("double", 1.0), "z": ("double", -0.0)}, {"d": ("double", -1.0), "z": ("double", 0.0)}, {"d": ("double", -1.0), "z": ("double", -0.0)}, {"d": ("double", 0.0), "z": ("double", 1.0)}, {"d": ("double", -0.0), "z": ("double", 1.0)}],
    "sized": [{"w": ("string", "\u00e9")}, {"w": ("bytes", b"\xc3\xa9")}, {"w": ("list", (("int", 1),))}, {"w": ("map", ((("int", 1), ("int", 1)),))}, {"w": ("string", "e\u0301")}],
    "durs": [{"da": ("dur", 1000000), "db": ("dur", 1000000)}, {"da": ("dur", 1500000), "db": ("dur", 1000000)}, {"da": ("dur", 1000000), "db": ("dur", 1000001)}, {"da": ("dur", -1), "db": ("dur", 0)}],
    "stamps": [{"ta": ("ts", 1577836800000000), "tb": ("ts", 1577836800000000)}, {"ta": ("ts", 1577836800000001), "tb": ("ts", 1577836800000000)}, {"ta": ("ts", 1577836800000000), "tb": ("ts", 1577836800999999)}],
    "leafdot": [
        {"r.kind": ("string", "vm"), "n": ("int", 1), "a.b": ("int", 1)}, {"r": ("map", ((("string", "kind"), ("string", "disk")),)), "n": ("int", 2), "a": ("map", ((("string", "b"), ("int", 2)),))},
        {"r": ("map", ((("string", "kind"), ("string", "net")),)), "r.kind": ("string", "both"), "n": ("int", 3), "a.b": ("int", 3)}, {"r": ("map", ()), "n": ("int", 4)},
        {"r.kind": ("string", "again"), "n": ("int", 5), "a": ("map", ((("string", "b"), ("int", 5)),)), "a.b": ("int", 6)},
    ],
    "callables": [{"n": ("int", 3), "scale": ("hostfn", "h1")}, {"n": ("int", 3), "scale": ("hostfn", "hb")}, {"n": ("int", 3)}, {"n": ("int", 4), "scale": ("hostfn", "h1")}, {"n": ("int", 3), "scale": ("int", 5)}],
    "twins": [{"v": ("int", 1)}, {"v": ("uint", 1)}, {"v": ("double", 1.0)}, {"v": ("bool", True)}, {"v": ("int", 0)}, {"v": ("double", 0.0)}, {"v": ("double", -0.0)}, {"v": ("bool", False)}, {"v": ("uint", 0)}],
}
BAD_SOURCES = ["1 +", "[1, 2", "a..b", "?"]


class History:
    def __init__(self, acc, zy, rnd):
        self.acc, self.zy, self.rnd = acc, zy, rnd
        self.envs = []   # (env, runner, declkind)
        self.progs = []  # (prog, env index, src, functions flag)
        self.gen_envs = {}  # program index -> activations drawn by the generator (generated programs only)
        self.asts = []  # (compiled AST, env index, src, functions flag it was first built with)
        self.prev = "start"
        self.log = []
        self.c = None

    def celpy(self):
        if self.c is None:
            import logging

            logging.disable(logging.CRITICAL)
            import celpy

            self.c = celpy
        return self.c

    def op_env(self, runner, declkind):
        c = self.celpy()
        ann, pkg = DECLS[declkind]
        annotations = {k: getattr(c.celtypes, v) for k, v in ann.items()} if ann else None
        env = c.Environment(package=pkg, annotations=annotations, runner_class=c.CompiledRunner if runner == "C" else c.InterpretedRunner)
        self.envs.append((env, runner, declkind))
        self.note(f"env:{runner}:{declkind}")
        self.acc.extra.setdefault("parser_tree_classes_seen", [])
        tc = type(c.CELParser.CEL_PARSER).__name__ + ":" + getattr(c.CELParser.CEL_PARSER.options.tree_class, "__name__", "?")
        if tc not in self.acc.extra["parser_tree_classes_seen"]:
            self.acc.extra["parser_tree_classes_seen"].append(tc)
        return len(self.envs) - 1

    def note(self, what):
        self.log.append(what)
        self.prev = what.split(":")[0] + ":" + (what.split(":")[1] if ":" in what else "")

    def op_program(self, ei, src, host, ast=None):
        c = self.celpy()
        env, runner, dk = self.envs[ei]
        funcs = None
        if host:
            from .. import hostfuncs

            funcs = {"size": hostfuncs.size, "contains": hostfuncs.contains} if host == "override" else [hostfuncs.h1, hostfuncs.h2]
        try:
            if ast is None:
                ast = env.compile(src)
                self.asts.append((ast, ei, src, host))
            else:
                self.acc.hook("program-from-earlier-ast")
            prog = env.program(ast, functions=funcs)
        except c.CELParseError:
            self.note(f"parse-error:{runner}")
            return None
        except Exception as ex:
            self.note(f"construction-failed:{runner}:{type(ex).__name__}")
            # judged like an evaluation: construction must succeed iff it does in a pristine process
            self.judge(ei, src, {}, host, ["X", "program", type(ex).__name__, "", ""], "construction")
            return None
        self.progs.append((prog, ei, src, host))
        self.note(f"program:{runner}")
        return len(self.progs) - 1

    def op_parse_error(self, ei):
        c = self.celpy()
        env, runner, _ = self.envs[ei]
        try:
            env.compile(self.rnd.choice(BAD_SOURCES))
        except c.CELParseError:
            pass
        except Exception:
            pass
        self.note(f"parse-error:{runner}")

    def op_evaluate(self, pi, benv):
        c = self.celpy()
        prog, ei, src, host = self.progs[pi]
        env, runner, dk = self.envs[ei]
        b = MV.cel_env(benv)
        before = MV.cel_env(benv)  # an equal, independently built snapshot (timestamps/durations do not survive copy.deepcopy)
        out = self.raw_eval(prog, b)
        self.acc.hook("evaluate")
        self.acc.hook("bindings-snapshot")
        self.acc.evaluations += 1
        if core.canon(before) != core.canon(b) or list(before) != list(b):
            self.acc.violation(f"bindings-mutated runner={runner} decl={dk}", f"evaluate() changed the caller's bindings for {src!r}: {before!r:.80} -> {b!r:.80}", self.case(ei, src, benv, host))
        self.judge(ei, src, benv, host, out, "evaluate")
        # re-evaluation with equal bindings
        out2 = self.raw_eval(prog, MV.cel_env(benv))
        self.acc.hook("re-evaluation")
        self.acc.evaluations += 1
        if out2 != out:
            self.acc.violation(f"re-evaluation-differs runner={runner} decl={dk}", f"{src!r} evaluated twice with equal bindings {benv!r:.80}: {core.jkey(out)[:60]} then {core.jkey(out2)[:60]}", self.case(ei, src, benv, host))
        self.note(f"evaluate:{runner}:{'E' if out[0] != 'V' else 'V'}")
        return out

    def raw_eval(self, prog, b):
        c = self.celpy()
        try:
            return ["V", core.canon(prog.evaluate(b))]
        except c.CELEvalError:
            return ["E"]
        except Exception as ex:
            return ["X", "evaluate", type(ex).__name__, core._left_from(ex), core._msg(ex)]

    def case(self, ei, src, benv, host):
        env, runner, dk = self.envs[ei]
        return {"history": self.log[-25:], "runner": runner, "decl": dk, "src": src, "bindings": MV.enc_env(benv), "host": host}

    def request(self, ei, src, benv, host):
        env, runner, dk = self.envs[ei]
        ann, pkg = DECLS[dk]
        return {"package": pkg, "annotations": ann, "runner": runner, "src": src, "bindings": MV.enc_env(benv), "functions": host}

    def judge(self, ei, src, benv, host, out, what):
        env, runner, dk = self.envs[ei]
        req = self.request(ei, src, benv, host)
        ref = self.zy.ask(req)
        self.acc.hook("reference(zygote)")
        if ref and ref[0] == "HARNESS":
            self.acc.inconclusive.append(f"reference evaluation failed in the harness: {ref}")
            return
        other_before = any(not l.startswith(("evaluate", "program")) or True for l in self.log[-1:])
        ctx_key = [self.prev, runner, dk, src]
        self.acc.nt(ctx_key)
        same = out[:1] == ref[:1] and (out[0] != "V" or out[1] == ref[1]) and (out[0] != "X" or out[2] == ref[2])
        self.acc.cell("prev=" + self.prev, "this=" + runner + ":" + dk, "ok" if same else "differ")
        if not same:
            hist_kinds = sorted({l.split(":")[0] + ":" + l.split(":")[1] for l in self.log if l.startswith("env:")})
            first_env_runner = next((l.split(":")[1] for l in self.log if l.startswith("env:")), "?")
            self.acc.violation(
                f"{what} runner={runner} decl={dk} first-env-runner={first_env_runner} obs={diag.oclass(out).split('@')[0]} pristine={diag.oclass(ref).split('@')[0]}",
                f"after history {self.log[-8:]} {what} of {src!r} with {benv!r:.80} under {runner}/{dk} gave {core.jkey(out)[:80]} but {core.jkey(ref)[:80]} alone in a pristine process",
                self.case(ei, src, benv, host),
            )


ACTIVE_SOURCES = list(range(len(SOURCES)))
GENERATED_SHARE = 0.3


def generated_program(rnd):
    """A program from the type-directed generator (small value pools: equal and look-alike values recur across programs of one
    process) with three activations of its variables.  The fixed sources aim at the state named by the property's anchors; these
    widen the histories to whatever the generator reaches (literals, conversions, comparisons, macros, string functions ...)."""
    from .. import lang, tgen

    g = tgen.TGen(rnd, small=True, maxdepth=rnd.randint(1, 3), errors=0.05)
    t = rnd.choice(["bool", "int", "string", ("list", "int"), "double", "uint"])
    try:
        node = g.gen(t)
        src = lang.to_text(node)
    except Exception:
        return None
    if len(src) > 300:
        return None
    return src, [g.model_env(), g.redraw_env(), g.redraw_env()]


def host_flag(kinds):
    return "override" if "override" in kinds else ("host" in kinds)


AFFINITY = {"deep": "deep", "leaf": "leafdot", "dotted": "dotted", "package": "package", "package-bare": "package", "simple": "plain"}


def pick_source(rnd, declkind, runner):
    """Any source may be built in any environment; more than half of the time one whose bindings meet the environment's declarations."""
    want = AFFINITY.get(declkind)
    if want and rnd.random() < 0.6:
        close = [i for i in ACTIVE_SOURCES if want in SOURCES[i][1]]
        if close:
            return SOURCES[rnd.choice(close)][:2]
    return SOURCES[rnd.choice(ACTIVE_SOURCES)][:2]


def random_history(acc, zy, rnd, length):
    h = History(acc, zy, rnd)
    acc.hook("history")
    for step in range(length):
        r = rnd.random()
        if not h.envs or r < 0.12:
            h.op_env(rnd.choice("IC"), rnd.choice(list(DECLS)))
        elif not h.progs or r < 0.35:
            ei = rnd.randrange(len(h.envs))
            if h.asts and rnd.random() < 0.15:
                # another program from an AST compiled earlier, bound to another set of functions (same environment)
                ast, ei0, src0, host0 = rnd.choice(h.asts)
                kinds0 = next((e[1] for e in SOURCES if e[0] == src0), [])
                flip = False if host0 else ("override" if any("override" in e[1] for e in SOURCES if e[0] == src0) else ("host" in kinds0))
                h.op_program(ei0, src0, flip, ast=ast)
                continue
            if rnd.random() < GENERATED_SHARE:
                gen = generated_program(rnd)
                if gen is not None:
                    pi = h.op_program(ei, gen[0], False)
                    if h.asts and h.asts[-1][2] == gen[0]:
                        h.asts.pop()  # only the fixed sources (whose function variants are known) are rebuilt from their AST
                    if pi is not None:
                        h.gen_envs[pi] = gen[1]
                    continue
            src, kinds = pick_source(rnd, h.envs[ei][2], h.envs[ei][1])
            h.op_program(ei, src, host_flag(kinds))
        elif r < 0.42:
            h.op_parse_error(rnd.randrange(len(h.envs)))
        else:
            pi = rnd.randrange(len(h.progs))
            prog, ei, src, host = h.progs[pi]
            if pi in h.gen_envs:
                h.acc.hook("generated-program-evaluation")
                h.op_evaluate(pi, dict(rnd.choice(h.gen_envs[pi])))
                continue
            kinds = next(e[1] for e in SOURCES if e[0] == src)
            bk = rnd.choice([k for k in kinds if k not in ("host", "override")] + (["failing"] if rnd.random() < 0.15 else []))
            benv = dict(rnd.choice(BINDINGS[bk]))
            out = h.op_evaluate(pi, benv)
            if out and out[0] != "V" and rnd.random() < 0.6:
                # right after a failed evaluation: the same program with no bindings at all, or with one name fewer
                h.acc.hook("evaluation-after-a-failure")
                h.op_evaluate(pi, {} if rnd.random() < 0.6 or not benv else {k: v for k, v in list(benv.items())[1:]})
    return h


def systematic(acc, zy, rnd, ctx):
    """All ordered pairs and triples of (runner, declaration kind) creations, one evaluation in each environment."""
    kinds = [(r, d) for r in "IC" for d in DECLS]
    i = 0
    for n in (2, 3):
        for combo in itertools.product(kinds, repeat=n):
            i += 1
            if not ctx.mine(i):
                continue
            if n == 3 and not ctx.thorough and i % 7 != 0:
                continue
            h = History(acc, zy, rnd)
            acc.hook("history")
            eis = [h.op_env(r, d) for r, d in combo]
            for ei in eis:
                dk = h.envs[ei][2]
                src = {"none": "[1, 2].map(x, x + 1)", "simple": "n + 1", "dotted": "a.b", "package": "x + 1", "package-bare": "x + 1", "leaf": "r.kind", "deep": "a.b.c + org.unit.team.cost"}[dk]
                bk = {"none": "empty", "simple": "plain", "dotted": "dotted", "package": "package", "package-bare": "package", "leaf": "leafdot", "deep": "deep"}[dk]
                pi = h.op_program(ei, src, False)
                if pi is not None:
                    h.op_evaluate(pi, dict(BINDINGS[bk][0]))
                    if len(BINDINGS[bk]) > 2:
                        h.op_evaluate(pi, dict(BINDINGS[bk][1]))
                    h.op_evaluate(pi, dict(BINDINGS[bk][-1]))
    # deterministic scenarios (every worker takes a slice): programs from ONE compiled AST bound to different function sets, in both
    # orders; a failing evaluation followed at once by an evaluation with no bindings, then by a succeeding one
    ovr_src = "size([1, 2, 3]) + [4, 5].size() + n"
    fail_src = "has(m.k) ? 10 / m.k : -1"
    scen = 0
    for r in "IC":
        for dk in ("none", "simple", "leaf"):
            for order in (("plain", "override"), ("override", "plain"), ("plain", "override", "plain")):
                scen += 1
                if not ctx.mine(scen):
                    continue
                h = History(acc, zy, rnd)
                acc.hook("history")
                ei = h.op_env(r, dk)
                first = h.op_program(ei, ovr_src, "override" if order[0] == "override" else False)
                ast = h.asts[-1][0] if h.asts else None
                pis = [first]
                for flavour in order[1:]:
                    pis.append(h.op_program(ei, ovr_src, "override" if flavour == "override" else False, ast=ast))
                for pi in pis + list(reversed(pis)):
                    if pi is not None:
                        h.op_evaluate(pi, dict(BINDINGS["plain"][0]))
            scen += 1
            if ctx.mine(scen):
                h = History(acc, zy, rnd)
                acc.hook("history")
                ei = h.op_env(r, dk)
                pi = h.op_program(ei, fail_src, False)
                if pi is not None:
                    for b in (BINDINGS["nested"][0], BINDINGS["nested-zero"][0], {}, BINDINGS["nested"][1], BINDINGS["nested-zero"][1], {"n": ("int", 1)}, BINDINGS["nested"][2]):
                        h.acc.hook("evaluation-after-a-failure")
                        h.op_evaluate(pi, dict(b))
    # one program per deep source, every deep activation in order and in reverse (a value given for a 3- or 4-segment name, then omitted)
    for r in "IC":
        for src in [e[0] for e in SOURCES if len(e) > 2 and e[2] == "deep"]:
            scen += 1
            if not ctx.mine(scen):
                continue
            h = History(acc, zy, rnd)
            acc.hook("history")
            ei = h.op_env(r, "deep")
            pi = h.op_program(ei, src, False)
            if pi is not None:
                for b in BINDINGS["deep"] + BINDINGS["deep"][::-1]:
                    h.acc.hook("deep-name-given-then-omitted")
                    h.op_evaluate(pi, dict(b))
    acc.exhaustive.append("all ordered pairs of (runner, declaration kind) environment creations" + (" and all triples" if ctx.thorough else " and a sample of triples"))


def run(ctx):
    acc = ctx.acc
    rnd = ctx.rnd
    import os

    zy = zygote.Zygote(share_dir=os.path.join(os.environ.get("VERIF_SCRATCH") or core.VERIF_DIR, "out", "C05", "ref"))
    # every reference costs a fork of the helper (tens of ms on this VM): each worker explores
    # histories over its own slice of the sources so that its reference cache stays small
    global ACTIVE_SOURCES
    first_of_group = {}
    for i, e in enumerate(SOURCES):
        if len(e) > 2:
            first_of_group.setdefault(e[2], i)
    gidx = [first_of_group[e[2]] if len(e) > 2 else i for i, e in enumerate(SOURCES)]
    ACTIVE_SOURCES = [i for i in range(len(SOURCES)) if (gidx[i] + ctx.worker) % 3 == 0] or ACTIVE_SOURCES
    if not any("host" not in SOURCES[i][1] for i in ACTIVE_SOURCES):
        ACTIVE_SOURCES.append(0)
    try:
        systematic(acc, zy, rnd, ctx)
        n = ctx.scale(240, 8000)
        for j in range(n):
            if ctx.expired():
                break
            h = random_history(acc, zy, rnd, rnd.randint(5, 60))
            if j % 37 == 0:
                acc.sample({"history": h.log[:30]})
        # cross-check the fork shortcut against brand-new interpreters
        m = 4 if not ctx.thorough else 40
        for j in range(m):
            hh = History(acc, zy, rnd)
            ei = hh.op_env(rnd.choice("IC"), rnd.choice(list(DECLS)))
            src, kinds = pick_source(rnd, hh.envs[ei][2], hh.envs[ei][1])
            bk = rnd.choice([k for k in kinds if k not in ("host", "override")])
            req = hh.request(ei, src, dict(rnd.choice(BINDINGS[bk])), host_flag(kinds))
            a, b = zy.ask(req), zygote.fresh_process(req)
            acc.hook("fresh-process-crosscheck")
            if a != b:
                acc.inconclusive.append(f"zygote and fresh process disagree on {req}: {a} vs {b}")
    finally:
        zy.close()
    acc.extra["zygote_requests"] = zy.requests


def replay(case):
    """Re-run the reference and a few short histories ending in the recorded evaluation."""
    import random

    acc = core.Acc()
    zy = zygote.Zygote()
    try:
        rnd = random.Random(0)
        for first in "IC":
            for second in "IC":
                h = History(acc, zy, rnd)
                h.op_env(first, "none")
                h.op_env(second, "dotted")
                ei = h.op_env(case["runner"], case["decl"])
                pi = h.op_program(ei, case["src"], case.get("host", False))
                if pi is not None:
                    for b in (MV.dec_env(case["bindings"]), {}, MV.dec_env(case["bindings"])):
                        h.op_evaluate(pi, dict(b))
    finally:
        zy.close()
    return not acc.violations, "\n".join(v["what"] for v in acc.violations[:4]) or "held on the replayed histories"
