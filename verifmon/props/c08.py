"""C08  Equality and ordering are coherent within each CEL type."""

from __future__ import annotations

import math
import operator

from .. import core, diag, hooks, lang, mv as MV

ID = "C08"
READY = True
LEVEL = "exploration"
WORKERS = {"quick": 8, "thorough": 16}
BUDGET = {"quick": 150, "thorough": 420}
MIN_NONTRIVIAL = {"quick": 2000, "thorough": 30000}
REQUIRED_HOOKS = ["hetero-pair", "size-pair", "nested-relation", "evaluate:I", "evaluate:C", "direct", "IntType.__lt__", "IntType.__eq__", "ListType.__eq__", "MapType.__eq__", "MapType.__ne__", "DoubleType.__eq__", "UintType.__eq__"]
RULE = (
    "Pairs and triples of same-type values (int, uint, double without NaN, string, bytes, bool, timestamp, duration; lists and maps of those, nested to depth 2; null) "
    "drawn with high collision probability: equal-but-not-identical copies, neighbours (v+-1, one more character, a prefix), -0.0/0.0, the same instant written with "
    "different offsets, strings differing beyond the BMP. For each pair the six relations are evaluated as CEL expressions over bound variables and over literals under "
    "both runners, and through the celtypes objects directly; checked against the algebraic laws (reflexive, symmetric, != is the negation, trichotomy, a<b iff b>a, "
    "<= is < or ==, transitivity on triples) and against the model's comparison. Recording wrappers on the comparison dunders count the calls the engines make. "
    "distinct_nontrivial = distinct pairs that are equal-but-distinct objects, adjacent in the order, or nested containers."
)
ASSUMPTIONS = ["mixed types and heterogeneous containers are never generated", "NaN is excluded", "lists and maps are only asserted for == and !="]

ORDERED = ("int", "uint", "double", "string", "bytes", "bool", "ts", "dur")
OPS6 = ["==", "!=", "<", "<=", ">", ">="]
PYOP = {"==": operator.eq, "!=": operator.ne, "<": operator.lt, "<=": operator.le, ">": operator.gt, ">=": operator.ge}


def neighbour(rnd, v):
    tag, p = v
    if tag == "int":
        return ("int", max(MV.INT_MIN, min(MV.INT_MAX, p + rnd.choice([-1, 1]))))
    if tag == "uint":
        return ("uint", max(0, min(MV.UINT_MAX, p + rnd.choice([-1, 1]))))
    if tag == "double":
        if p in (math.inf, -math.inf):
            return ("double", rnd.choice([1.7976931348623157e308, -1.7976931348623157e308]))
        if p == 0:
            return ("double", rnd.choice([0.0, -0.0, 5e-324, -5e-324]))
        return ("double", math.nextafter(p, rnd.choice([math.inf, -math.inf])))
    if tag == "string":
        r = rnd.random()
        if r < 0.3 and p:
            return ("string", p[:-1])
        if r < 0.6:
            return ("string", p + rnd.choice(["a", "\x00", "\U0001f431", "￿", "\U00010000"]))
        if p:
            i = rnd.randrange(len(p))
            return ("string", p[:i] + rnd.choice(["￿", "\U00010000", "", "a", "b"]) + p[i + 1 :])
        return ("string", "a")
    if tag == "bytes":
        r = rnd.random()
        if r < 0.3 and p:
            return ("bytes", p[:-1])
        if r < 0.6:
            return ("bytes", p + bytes([rnd.choice([0, 0x61, 0x7F, 0x80, 0xFF])]))
        if p:
            i = rnd.randrange(len(p))
            return ("bytes", p[:i] + bytes([rnd.choice([0, 0x7F, 0x80, 0xFF])]) + p[i + 1 :])
        return ("bytes", b"\x00")
    if tag == "bool":
        return ("bool", not p)
    if tag == "ts":
        return ("ts", max(MV.TS_MIN_US, min(MV.TS_MAX_US, p + rnd.choice([-1, 1, -10**6, 10**6, 3600 * 10**6]))))
    if tag == "dur":
        return ("dur", max(-MV.DUR_MAX_US, min(MV.DUR_MAX_US, p + rnd.choice([-1, 1, -10**6, 10**6]))))
    if tag == "list":
        if p and rnd.random() < 0.6:
            i = rnd.randrange(len(p))
            return ("list", p[:i] + (neighbour(rnd, p[i]),) + p[i + 1 :])
        if p and rnd.random() < 0.5:
            return ("list", p[:-1])
        return ("list", p + (p[0],)) if p else v
    if tag == "map":
        if p and rnd.random() < 0.6:
            i = rnd.randrange(len(p))
            return ("map", p[:i] + ((p[i][0], neighbour(rnd, p[i][1])),) + p[i + 1 :])
        if p:
            return ("map", p[:-1])
        return v
    return v


# strings that a normalising, case-folding or width-folding comparison would identify although their code points differ
LOOKALIKE = [
    ("\u00e9", "e\u0301"), ("\u212b", "\u00c5"), ("\u00c5", "A\u030a"), ("\uac00", "\u1100\u1161"), ("\u1e0b\u0323", "\u1e0d\u0307"), ("\ufb01", "fi"), ("a", "A"),
    ("\u00df", "ss"), ("\u03a9", "\u2126"), (" ", "\u00a0"), ("\U0001d15e", "\U0001d157\U0001d165"), ("1", "\uff11"), ("\u0131", "i"), ("", "\u200b"), ("", "\ufeff"), ("\u00e9", "\u00e8"),
]


def inject(rnd_state, v, x):
    """v with the text x inserted into the first string found inside it (None when v holds no string)."""
    tag, p = v
    if tag == "string":
        i = rnd_state % (len(p) + 1)
        return ("string", p[:i] + x + p[i:])
    if tag == "list":
        for i, e in enumerate(p):
            r = inject(rnd_state, e, x)
            if r is not None:
                return ("list", p[:i] + (r,) + p[i + 1 :])
        return None
    if tag == "map":
        for i, (k, e) in enumerate(p):
            for which in ((0, 1) if rnd_state % 2 else (1, 0)):
                r = inject(rnd_state, (k, e)[which], x)
                if r is not None:
                    return ("map", p[:i] + (((r, e) if which == 0 else (k, r)),) + p[i + 1 :])
        return None
    return None


def has_dup_keys(v):
    tag, p = v
    if tag == "list":
        return any(has_dup_keys(e) for e in p)
    if tag == "map":
        return len({k for k, _ in p}) != len(p) or any(has_dup_keys(k) or has_dup_keys(e) for k, e in p)
    return False


def shuffled_copy(rnd, v):
    """An equal value built separately (maps with another insertion order, -0.0 for 0.0)."""
    tag, p = v
    if tag == "map":
        items = [(shuffled_copy(rnd, k), shuffled_copy(rnd, x)) for k, x in p]
        rnd.shuffle(items)
        return ("map", tuple(items))
    if tag == "list":
        return ("list", tuple(shuffled_copy(rnd, x) for x in p))
    if tag == "double" and p == 0 and rnd.random() < 0.5:
        return ("double", -p)
    if tag == "string":
        return ("string", "".join(list(p)))
    return (tag, p)


def pick_type(rnd):
    r = rnd.random()
    if r < 0.62:
        return rnd.choice(ORDERED)
    if r < 0.66:
        return "null"
    if r < 0.85:
        et = rnd.choice(ORDERED) if rnd.random() < 0.8 else ("list", rnd.choice(["int", "string"]))
        return ("list", et)
    kt = rnd.choice(["int", "uint", "bool", "string"])
    vt = rnd.choice(ORDERED) if rnd.random() < 0.75 else rnd.choice([("list", "int"), ("map", "string", "int")])
    return ("map", kt, vt)


def small_value(rnd, t):
    """Small pools -> high collision probability."""
    if rnd.random() < 0.35:
        v = MV.rand_value(rnd, t)
    else:
        if t == "int":
            v = ("int", rnd.randint(-2, 2))
        elif t == "uint":
            v = ("uint", rnd.randint(0, 3))
        elif t == "double":
            v = ("double", rnd.choice([0.0, -0.0, 1.0, -1.0, 0.5, math.inf, -math.inf, 5e-324]))
        elif t == "string":
            v = ("string", "".join(rnd.choice(["a", "b", "￿", "\U00010000"]) for _ in range(rnd.randint(0, 3))))
        elif t == "bytes":
            v = ("bytes", bytes(rnd.choice([0x61, 0x62, 0x80, 0xFF]) for _ in range(rnd.randint(0, 3))))
        elif t == "ts":
            v = ("ts", rnd.choice([0, 1, 10**6, 1234567890 * 10**6, MV.TS_MIN_US, MV.TS_MAX_US]))
        elif t == "dur":
            v = ("dur", rnd.choice([0, 1, -1, 10**6, -(10**6), MV.DUR_MAX_US, -MV.DUR_MAX_US]))
        elif isinstance(t, tuple) and t[0] == "list":
            v = ("list", tuple(small_value(rnd, t[1]) for _ in range(rnd.randint(0, 3))))
        elif isinstance(t, tuple) and t[0] == "map":
            items, seen = [], set()
            for _ in range(rnd.randint(0, 3)):
                k = small_value(rnd, t[1])
                if k in seen:
                    continue
                seen.add(k)
                items.append((k, small_value(rnd, t[2])))
            v = ("map", tuple(items))
        else:
            v = MV.rand_value(rnd, t)
    return v


def has_nan(v):
    tag, p = v
    if tag == "double":
        return p != p
    if tag == "list":
        return any(has_nan(x) for x in p)
    if tag == "map":
        return any(has_nan(x) for _, x in p)
    return False


def model_rel(a, b):
    """'eq' | 'lt' | 'gt' | 'ne' (unordered types)"""
    if lang.eq_mv(a, b):
        return "eq"
    if a[0] in ORDERED:
        return "lt" if lang.cmp_mv(a, b) < 0 else "gt"
    return "ne"


EXPECT = {
    "eq": {"==": True, "!=": False, "<": False, "<=": True, ">": False, ">=": True},
    "lt": {"==": False, "!=": True, "<": True, "<=": True, ">": False, ">=": False},
    "gt": {"==": False, "!=": True, "<": False, "<=": False, ">": True, ">=": True},
    "ne": {"==": False, "!=": True},
}


def lit_or_none(v):
    try:
        if has_special_double(v):
            return None
        t = MV.lit(v)
        return t
    except ValueError:
        return None


def has_special_double(v):
    tag, p = v
    if tag == "double":
        return p != p or p in (math.inf, -math.inf)
    if tag == "list":
        return any(has_special_double(x) for x in p)
    if tag == "map":
        return any(has_special_double(x) for _, x in p)
    return False


def ts_lit_with_offset(rnd, v):
    if v[0] != "ts":
        return None
    off = MV.rand_offset(rnd)
    local = v[1] + off * 60 * 10**6
    if not (MV.TS_MIN_US <= local <= MV.TS_MAX_US):
        off = 0
    return f"timestamp({MV.str_lit(MV.ts_text(v[1], off))})"


def zoned_ts(rnd, celv, mvv):
    """The bound timestamp re-made from an aware datetime.datetime in a fixed-offset zone (same instant)."""
    import datetime

    off = MV.rand_offset(rnd)
    if not off or not (MV.TS_MIN_US + 86400 * 10**6 <= mvv[1] + off * 60 * 10**6 <= MV.TS_MAX_US - 86400 * 10**6):
        return celv
    tz = datetime.timezone(datetime.timedelta(minutes=off))
    aware = datetime.datetime(1970, 1, 1, tzinfo=datetime.timezone.utc) + datetime.timedelta(microseconds=mvv[1])
    return type(celv)(aware.astimezone(tz))


class Checker:
    def __init__(self, acc, rnd):
        self.acc = acc
        self.rnd = rnd

    def typename(self, t):
        return t if isinstance(t, str) else t[0]

    def ops_for(self, a):
        return OPS6 if a[0] in ORDERED else ["==", "!="]

    def report(self, path, tname, law, rel, obs, exp, a, b, src=None, c=None):
        self.acc.violation(
            f"{path} {tname} {law} rel={rel} obs={obs} exp={exp}",
            f"[{path}] {tname}: {law} with a={short(a)} b={short(b)}{' c=' + short(c) if c else ''} gave {obs}, expected {exp}" + (f" ({src[:80]})" if src else ""),
            {"a": MV.enc(a), "b": MV.enc(b), "path": path, "law": law},
        )

    # ---- engines
    def engine_pair(self, a, b, t):
        acc = self.acc
        tname = self.typename(t)
        rel = model_rel(a, b)
        ops = self.ops_for(a)
        exp = [EXPECT[rel][o] for o in ops] + [EXPECT[{"lt": "gt", "gt": "lt"}.get(rel, rel)][o] for o in ops] + [True, True]
        # (x op y)..., (y op x)..., x == x, y == y
        mode = "bound"
        bind = {"x": a, "y": b}
        tx, ty = "x", "y"
        if self.rnd.random() < 0.25:
            la = ts_lit_with_offset(self.rnd, a) or lit_or_none(a)
            lb = ts_lit_with_offset(self.rnd, b) or lit_or_none(b)
            if la is not None and lb is not None:
                mode, bind = "literal", {}
                tx, ty = "(" + la + ")", "(" + lb + ")"
            if mode == "literal" and a[0] == "ts" and self.rnd.random() < 0.5:
                # the same instants after passing through timestamp arithmetic (the result is built from a datetime, not from text)
                mode = "literal-arith"
                tx, ty = "(" + la + " + duration('0s'))", "(" + lb + " - duration('0s'))"
        src = "[" + ", ".join([f"{tx} {o} {ty}" for o in ops] + [f"{ty} {o} {tx}" for o in ops] + [f"{tx} == {tx}", f"{ty} == {ty}"]) + "]"
        benv = MV.cel_env(bind)
        if mode == "bound" and a[0] == "ts" and self.rnd.random() < 0.5:
            # host-bound timestamps carrying the zone the host's datetime was in (same instants)
            mode = "bound-zoned"
            benv = {k: zoned_ts(self.rnd, v, bind[k]) for k, v in benv.items()}
            acc.hook("bound-zoned-timestamp")
        for r in "IC":
            out = core.eval_cached(r, src, benv) if mode.startswith("bound") else core.api_eval(r, src, benv)
            acc.hook("evaluate:" + r)
            acc.evaluations += 1
            acc.cell(tname, mode, r, rel, "ok" if out[0] == "V" else out[0])
            got = None
            if out[0] == "V" and out[1][0] in ("ListType", "list"):
                got = [x[1] if x[0] in ("BoolType", "bool") else x[0] for x in out[1][1]]
            if got == exp:
                continue
            # find which relation is off by evaluating them one at a time
            labels = [f"x{o}y" for o in ops] + [f"y{o}x" for o in ops] + ["x==x", "y==y"]
            texts = [f"{tx} {o} {ty}" for o in ops] + [f"{ty} {o} {tx}" for o in ops] + [f"{tx} == {tx}", f"{ty} == {ty}"]
            found = False
            for lab, txt, e in zip(labels, texts, exp):
                o1 = core.api_eval(r, txt, benv)
                acc.evaluations += 1
                ob = o1[1][1] if o1[0] == "V" and o1[1][0] in ("BoolType", "bool") else diag.oclass(o1).split("@")[0]
                if ob != e:
                    found = True
                    self.report(f"{mode}:{r}", tname, lab.replace("x", "a").replace("y", "b"), rel, ob, e, a, b, txt)
            if not found:
                self.report(f"{mode}:{r}", tname, "combined-list", rel, diag.oclass(out).split("@")[0], "list of bools", a, b, src)

    def nested_pair(self, a, b, t):
        """The relations evaluated INSIDE nested macro bodies, the outer variable compared with the inner one: the matrix over
        {a, b} x {a, b} must be what the relations give at the top level."""
        acc = self.acc
        tname = self.typename(t)
        ordered = a[0] in ORDERED
        ops = ["==", "!="] + (["<", "<="] if ordered else [])
        src = "[x, y].map(p, [x, y].map(q, [" + ", ".join(f"p {o} q" for o in ops) + "]))"
        want = []
        for u in (a, b):
            row = []
            for v in (a, b):
                rel = model_rel(u, v)
                row.append([EXPECT[rel][o] for o in ops])
            want.append(row)
        alls = "[x, y].all(p, [p].all(q, q == p && !(q != p)))"
        benv = MV.cel_env({"x": a, "y": b})
        for r in "IC":
            out = core.eval_cached(r, src, benv)
            o2 = core.eval_cached(r, alls, benv)
            acc.hook("evaluate:" + r, 2)
            acc.hook("nested-relation")
            acc.evaluations += 2
            got = None
            if out[0] == "V":
                try:
                    got = [[[z[1] for z in cell[1]] for cell in row[1]] for row in out[1][1]]
                except Exception:
                    got = None
            ok = got == want and o2 == ["V", ["BoolType", True]]
            acc.cell(tname, "nested", r, "ok" if ok else "differ")
            if not ok:
                self.report(f"nested:{r}", tname, "relations-inside-nested-macros", model_rel(a, b), str(got if got != want else o2)[:80], str(want)[:80], a, b, src)

    def engine_triple(self, a, b, c, t):
        """Transitivity through CEL expressions."""
        tname = self.typename(t)
        vals = sorted([a, b, c], key=lambda v: _key(v)) if a[0] in ORDERED else [a, b, c]
        src = "[x < y, y < z, x < z, x == y, y == z, x == z, x <= z]" if a[0] in ORDERED else "[x == y, y == z, x == z]"
        benv = MV.cel_env({"x": vals[0], "y": vals[1], "z": vals[2]})
        for r in "IC":
            out = core.eval_cached(r, src, benv)
            self.acc.hook("evaluate:" + r)
            self.acc.evaluations += 1
            if not (out[0] == "V" and out[1][0] in ("ListType", "list")):
                self.report(f"triple:{r}", tname, "evaluates", "-", diag.oclass(out).split("@")[0], "list of bools", vals[0], vals[1], src, vals[2])
                continue
            g = [x[1] for x in out[1][1]]
            if a[0] in ORDERED:
                lt_xy, lt_yz, lt_xz, eq_xy, eq_yz, eq_xz, le_xz = g
                if lt_xy and lt_yz and not lt_xz:
                    self.report(f"triple:{r}", tname, "transitivity-of-<", "-", "a<b,b<c,!(a<c)", "a<c", vals[0], vals[1], src, vals[2])
                if (lt_xy or eq_xy) and (lt_yz or eq_yz) and not le_xz:
                    self.report(f"triple:{r}", tname, "transitivity-of-<=", "-", "a<=b,b<=c,!(a<=c)", "a<=c", vals[0], vals[1], src, vals[2])
            else:
                eq_xy, eq_yz, eq_xz = g
            if eq_xy and eq_yz and not eq_xz:
                self.report(f"triple:{r}", tname, "transitivity-of-==", "-", "a==b,b==c,a!=c", "a==c", vals[0], vals[1], src, vals[2])

    # ---- direct
    def direct_pair(self, a, b, t):
        acc = self.acc
        tname = self.typename(t)
        ca, cb = MV.to_cel(a), MV.to_cel(b)
        rel = model_rel(a, b)
        acc.hook("direct")
        res = {}
        for o in self.ops_for(a):
            for lab, l, r_ in ((f"a{o}b", ca, cb), (f"b{o}a", cb, ca)):
                acc.evaluations += 1
                try:
                    v = PYOP[o](l, r_)
                    v = bool(v) if isinstance(v, (bool, int)) else type(v).__name__
                except Exception as ex:
                    v = "raised " + type(ex).__name__
                res[lab] = v
                e = EXPECT[rel if lab.startswith("a") else {"lt": "gt", "gt": "lt"}.get(rel, rel)][o]
                if v != e:
                    self.report("direct", tname, lab, rel, v, e, a, b)
        acc.cell(tname, "direct", rel)


def _key(v):
    tag, p = v
    if tag == "string":
        return [ord(c) for c in p]
    if tag == "bytes":
        return list(p)
    return p


def short(v):
    return repr(v)[:70]


# ---------------------------------------------------------------- containers with elements of several types, long containers
HSCALARS = [("int", 1), ("int", 2), ("string", "x"), ("string", "1"), ("bool", True), ("bool", False), ("null", None), ("uint", 1), ("uint", 2), ("double", 1.0), ("double", 2.5), ("bytes", b"x"), ("bytes", b"1")]


def hetero_pairs(ck, rnd, n):
    """Lists and maps are dynamically typed.  Two containers of the same CEL type that differ DEFINITELY somewhere (another length or
    key set, or a position holding two unequal values of one type) are unequal whatever their other positions hold: a == b and b == a
    must be false and a != b, b != a true, also when some other position pairs values of different types (whose own comparison is an
    error that the definite difference absorbs).  Pairs without a definite difference are outside the statement and not judged."""
    acc = ck.acc
    for _ in range(n):
        kind = rnd.choice(["list", "map"])
        k = rnd.randint(2, 4)
        if kind == "list":
            av = [rnd.choice(HSCALARS) for _ in range(k)]
            bv = [rnd.choice(HSCALARS) if rnd.random() < 0.6 else av[i] for i in range(k)]
            if rnd.random() < 0.15:
                bv = bv[:-1]
            a, b = ("list", tuple(av)), ("list", tuple(bv))
            pairs = list(zip(av, bv))
            definite = len(av) != len(bv) or any(u[0] == v[0] and u[1] != v[1] for u, v in pairs)
        else:
            keys = [("string", c) for c in "abcd"[:k]]
            av = {kk: rnd.choice(HSCALARS) for kk in keys}
            kb = list(keys)
            rnd.shuffle(kb)
            bvm = {kk: (rnd.choice(HSCALARS) if rnd.random() < 0.6 else av[kk]) for kk in kb}
            a, b = ("map", tuple(av.items())), ("map", tuple(bvm.items()))
            pairs = [(av[kk], bvm[kk]) for kk in keys]
            definite = any(u[0] == v[0] and u[1] != v[1] for u, v in pairs)
        mixed = sum(1 for u, v in pairs if u[0] != v[0])
        if not definite or mixed == 0:
            continue
        benv = MV.cel_env({"x": a, "y": b})
        acc.hook("hetero-pair")
        acc.nt(["hetero", MV.enc(a), MV.enc(b)])
        for r in "IC":
            got = []
            for src in ("x == y", "x != y", "y == x", "y != x"):
                o = core.eval_cached(r, src, benv)
                acc.hook("evaluate:" + r)
                acc.evaluations += 1
                got.append(o[1][1] if o[0] == "V" and o[1][0] in ("BoolType", "bool") else diag.oclass(o).split("@")[0])
            ok = got == [False, True, False, True]
            acc.cell("hetero", kind, r, "mixed%d" % min(mixed, 2), "ok" if ok else "differ")
            if not ok:
                acc.violation(
                    f"hetero:{r} {kind} definite-difference-with-{'one' if mixed == 1 else 'two-or-more'}-incomparable-position{'s' if mixed > 1 else ''} obs={'/'.join(str(g) for g in got)}",
                    f"[hetero:{r}] a={short(a)} b={short(b)} differ definitely, yet [a == b, a != b, b == a, b != a] = {got}, expected [False, True, False, True]",
                    {"a": MV.enc(a), "b": MV.enc(b), "path": "hetero:" + r, "law": "definite-difference"},
                )


def size_pairs(ck, ctx):
    """Long lists, strings, byte strings and maps that are equal, differ at the first / the last position, or are a proper prefix of one another."""
    rnd = ck.rnd
    k = 0
    for n in (17, 24, 25, 33, 65, 129, 257, 1025):
        base_l = tuple(("int", i % 7) for i in range(n))
        base_s = "".join(chr(0x61 + i % 26) for i in range(n))
        base_m = tuple((("int", i), ("int", i % 5)) for i in range(n))
        cases = [
            (("list", "int"), ("list", base_l), ("list", base_l)), (("list", "int"), ("list", base_l), ("list", base_l[:-1])), (("list", "int"), ("list", base_l), ("list", base_l + (("int", 0),))),
            (("list", "int"), ("list", base_l), ("list", base_l[:-1] + (("int", 99),))), (("list", "int"), ("list", base_l), ("list", (("int", 99),) + base_l[1:])),
            (("list", "int"), ("list", base_l), ("list", base_l[: n // 2] + (("int", 99),) + base_l[n // 2 + 1 :])),
            ("string", ("string", base_s), ("string", base_s)), ("string", ("string", base_s), ("string", base_s[:-1])), ("string", ("string", base_s), ("string", base_s[:-1] + "\U0001f431")),
            ("string", ("string", base_s), ("string", "b" + base_s[1:])), ("bytes", ("bytes", base_s.encode()), ("bytes", base_s.encode()[:-1] + b"\xff")), ("bytes", ("bytes", base_s.encode()), ("bytes", base_s.encode())),
            (("map", "int", "int"), ("map", base_m), ("map", tuple(reversed(base_m)))), (("map", "int", "int"), ("map", base_m), ("map", base_m[:-1])),
            (("map", "int", "int"), ("map", base_m), ("map", base_m[:-1] + ((("int", n - 1), ("int", 77)),))), (("map", "int", "int"), ("map", base_m), ("map", base_m[:-1] + ((("int", n + 5), ("int", (n - 1) % 5)),))),
            (("list", ("list", "int")), ("list", (("list", base_l),)), ("list", (("list", base_l[:-1]),))),
        ]
        for t, a, b in cases:
            k += 1
            if not ctx.mine(k):
                continue
            ck.acc.hook("size-pair")
            ck.acc.nt(["size", n, k])
            ck.direct_pair(a, b, t)
            ck.engine_pair(a, b, t)
            ck.engine_pair(b, a, t)
    ck.acc.exhaustive.append("17 long-container shapes x sizes 17..1025")


def install_counters(acc):
    ct = core.celpy().celtypes

    def obs(cls, name, args, kwargs, res, exc):
        acc.hook(f"{cls.__name__}.{name}")

    for cls in (ct.IntType, ct.UintType, ct.DoubleType, ct.StringType, ct.ListType, ct.MapType, ct.BoolType, ct.BytesType, ct.TimestampType, ct.DurationType):
        for name in ("__eq__", "__ne__", "__lt__", "__le__", "__gt__", "__ge__"):
            hooks.wrap_method(cls, name, obs)


def run(ctx):
    acc = ctx.acc
    rnd = ctx.rnd
    core.celpy()
    install_counters(acc)
    ck = Checker(acc, rnd)
    size_pairs(ck, ctx)
    hetero_pairs(ck, rnd, ctx.scale(4000, 160000))
    n = ctx.scale(9000, 400000)
    for j in range(n):
        if ctx.expired():
            break
        t = pick_type(rnd)
        a = small_value(rnd, t)
        r = rnd.random()
        if r < 0.08:
            x, y = rnd.choice(LOOKALIKE)
            st = rnd.randrange(1000)
            a2, b2 = inject(st, a, x), inject(st, a, y)
            if a2 is None or has_dup_keys(a2) or has_dup_keys(b2):
                continue
            a, b, kind = (a2, b2, "look-alike") if rnd.random() < 0.5 else (b2, a2, "look-alike")
        elif r < 0.35:
            b = shuffled_copy(rnd, a)
            kind = "equal-copy"
        elif r < 0.7:
            b = neighbour(rnd, a)
            kind = "neighbour"
        else:
            b = small_value(rnd, t)
            kind = "random"
        if has_nan(a) or has_nan(b):
            continue
        if kind != "random" or not isinstance(t, str):
            acc.nt([MV.enc(a), MV.enc(b)])
        ck.direct_pair(a, b, t)
        ck.engine_pair(a, b, t)
        if j % 3 == 0:
            ck.nested_pair(a, b, t)
        if j % 4 == 0:
            c = neighbour(rnd, b) if rnd.random() < 0.6 else small_value(rnd, t)
            if not has_nan(c):
                ck.engine_triple(a, b, c, t)
        if j % 1499 == 0:
            acc.sample({"a": MV.enc(a), "b": MV.enc(b), "kind": kind})
    hooks.remove_all()


def replay(case):
    import random

    core.celpy()
    acc = core.Acc()
    ck = Checker(acc, random.Random(0))
    a, b = MV.dec(case["a"]), MV.dec(case["b"])
    t = a[0]
    ck.direct_pair(a, b, t)
    for _ in range(6):
        ck.engine_pair(a, b, t)
    return not acc.violations, f"a={a!r} b={b!r}\n" + "\n".join(v["what"] for v in acc.violations)
