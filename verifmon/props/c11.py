"""C11  Timestamp and duration arithmetic and calendar accessors are exact."""

from __future__ import annotations

from fractions import Fraction

from .. import civil, core, diag, lang, mv as MV
from ..lang import Node

ID = "C11"
READY = True
LEVEL = "exploration"
WORKERS = {"quick": 8, "thorough": 16}
BUDGET = {"quick": 150, "thorough": 420}
MIN_NONTRIVIAL = {"quick": 3000, "thorough": 60000}
REQUIRED_HOOKS = ["evaluate:I", "evaluate:C", "law", "accessor", "edge-accessor", "duration-text", "nested-literal"]
RULE = (
    "Timestamps at microsecond resolution in years 0001-9999 (biased to year/month/leap-day/DST/range boundaries) and durations within +-315,576,000,000 s "
    "are bound as variables; the laws (t+d)-d == t, (t+d)-t == d, t1-t2 == elapsed, d+t, t-d, d1+-d2 are evaluated under both runners and compared with integer "
    "microsecond arithmetic (results outside the range must be errors); all ten accessors are evaluated without zone, with 'UTC', with fixed offsets "
    "-14:00..+14:00 and with IANA zones and compared with an independent proleptic-Gregorian computation (days-from-civil / civil-from-days, Sunday = 0, "
    "0-based month, day-of-month and day-of-year); duration texts (h, m, s, ms, us, ns, sign, fractions, multi-unit) are compared with exact rational seconds. "
    "distinct_nontrivial = distinct (operation, operands) at a boundary (range edge, leap day, month/year edge, DST switch day), with a non-UTC zone, or whose "
    "expected outcome is an error."
)
ASSUMPTIONS = [
    "accessor calls whose local time leaves 0001-9999 are not asserted",
    "IANA zones take their UTC offset from the standard library zoneinfo (same tz database as the implementation), restricted to 1970-2037; the calendar arithmetic is independent",
    "fractional / sub-second duration components are accepted within 1 microsecond (the representation's resolution and float parsing)",
    "getMilliseconds on durations is not asserted (definitions differ)",
]

ZONES = ["UTC", "America/New_York", "Europe/Paris", "Asia/Kolkata", "Australia/Lord_Howe", "Pacific/Apia", "Asia/Kathmandu", "America/St_Johns"]
OFFSETS = ["+00:00", "-00:00", "00:00", "+05:30", "-08:00", "+14:00", "-14:00", "+00:01", "-00:01", "+12:45", "-09:30", "01:00", "+23:59", "-23:59"]
T = Node("var", "ts", "t")
T2 = Node("var", "ts", "t2")
D = Node("var", "dur", "d")
D2 = Node("var", "dur", "d2")
Z = Node("var", "string", "z")

LAWS = [
    ("(t + d) - d", Node("bin", "ts", "-", Node("bin", "ts", "+", T, D), D)),
    ("(t + d) - t", Node("bin", "dur", "-", Node("bin", "ts", "+", T, D), T)),
    ("(d + t) - d", Node("bin", "ts", "-", Node("bin", "ts", "+", D, T), D)),
    ("t - t2", Node("bin", "dur", "-", T, T2)),
    ("t2 + (t - t2)", Node("bin", "ts", "+", T2, Node("bin", "dur", "-", T, T2))),
    ("t + d", Node("bin", "ts", "+", T, D)),
    ("d + t", Node("bin", "ts", "+", D, T)),
    ("t - d", Node("bin", "ts", "-", T, D)),
    ("d + d2", Node("bin", "dur", "+", D, D2)),
    ("d - d2", Node("bin", "dur", "-", D, D2)),
    ("(d + d2) - d2", Node("bin", "dur", "-", Node("bin", "dur", "+", D, D2), D2)),
    ("t - t2 == d", Node("bin", "bool", "==", Node("bin", "dur", "-", T, T2), D)),
    ("t < t + d", Node("bin", "bool", "<", T, Node("bin", "ts", "+", T, D))),
]


def expected_of(node, env):
    try:
        return ("V", lang.Model(env).ev(node))
    except lang.ModelErr:
        return ("E",)
    except lang.Unspec as ex:
        return ("U", str(ex))


def agrees(out, exp, tol_us=0):
    if exp[0] == "E":
        return out[0] == "E"
    if out[0] != "V":
        return False
    want = MV.canon_of(exp[1])
    if MV.same_value_ignoring_class(out[1], want):
        return True
    if tol_us and exp[1][0] == "dur" and out[1][0] in ("DurationType", "timedelta"):
        return abs(int(out[1][1]) - exp[1][1]) <= tol_us
    return False


def ts_kind(us):
    f = civil.fields(us)
    if us - MV.TS_MIN_US < 2 * 86400 * 10**6 or MV.TS_MAX_US - us < 2 * 86400 * 10**6:
        return "range-edge"
    if f["getMonth"] == 1 and f["getDate"] >= 28:
        return "feb-end"
    if f["getDayOfYear"] in (0, 364, 365):
        return "year-edge"
    if f["getDate"] in (1,) or f["getDate"] >= 28:
        return "month-edge"
    if f["getFullYear"] < 1000:
        return "year<1000"
    if f["getHours"] in (0, 23):
        return "day-edge"
    return "mid"


def draw_ts(rnd):
    r = rnd.random()
    if r < 0.15:
        # DST switch days in the IANA zones used
        base = rnd.choice([(2021, 3, 14), (2021, 11, 7), (2023, 3, 26), (2023, 10, 29), (2021, 4, 4), (2021, 10, 3), (2011, 12, 30), (2024, 2, 29), (2024, 12, 31)])
        return (civil.days_from_civil(*base) * 86400 + rnd.randint(0, 86399)) * 10**6 + rnd.choice([0, 0, 999999, rnd.randint(0, 999999)])
    return MV.rand_ts(rnd)


# A bound timestamp may carry any zone: the harness builds instants in UTC, so a deterministic share of them is re-dressed
# in a fixed offset (same instant) before binding -- accessors without a zone argument must still answer in UTC.
ZONE_DRESS = [0, 0, 330, -210, 840, -840, -570, 59, -1, 120, -300, 0]


def dress(benv, env):
    import datetime

    ct = core.celpy().celtypes
    for k, mvv in env.items():
        if mvv[0] != "ts":
            continue
        us = mvv[1]
        off = ZONE_DRESS[(us // 7919) % len(ZONE_DRESS)]
        if off and MV.TS_MIN_US <= us + off * 60 * 10**6 <= MV.TS_MAX_US:
            tz = datetime.timezone(datetime.timedelta(minutes=off))
            benv[k] = ct.TimestampType(datetime.datetime.fromtimestamp(0, tz) + (benv[k] - datetime.datetime.fromtimestamp(0, datetime.timezone.utc)))
    return benv


def dressed_offsets(env):
    out = []
    for k, mvv in env.items():
        if mvv[0] == "ts":
            off = ZONE_DRESS[(mvv[1] // 7919) % len(ZONE_DRESS)]
            if off and MV.TS_MIN_US <= mvv[1] + off * 60 * 10**6 <= MV.TS_MAX_US:
                out.append(off)
    return out


def raw_instants(node, env):
    """Unchecked integer microseconds of every timestamp-valued sub-expression (vars and +/- over them), for fault attribution only."""
    found = []

    def ev(n):
        if n.k == "var":
            v = env.get(n.a[0])
            return v if v and v[0] in ("ts", "dur") else None
        if n.k == "bin" and n.a[0] in ("+", "-"):
            a, b = ev(n.a[1]), ev(n.a[2])
            if a is None or b is None:
                return None
            if n.a[0] == "+":
                r = ("ts" if "ts" in (a[0], b[0]) else "dur", a[1] + b[1])
            else:
                r = ("dur" if a[0] == b[0] else "ts", a[1] - b[1])
            if r[0] == "ts":
                found.append(r[1])
            return r
        for x in n.a:
            if isinstance(x, Node):
                ev(x)
        return None

    ev(node)
    return found


def carried_offset_at_range_edge(node, env):
    """True when a bound timestamp carries a non-UTC offset and some timestamp-valued intermediate result lies within that
    offset of either end of the representable range (where local wall-clock time and instant disagree about being in range)."""
    offs = dressed_offsets(env)
    if not offs:
        return False
    slack = max(abs(o) for o in offs) * 60 * 10**6
    return any(abs(us - MV.TS_MIN_US) <= slack or abs(us - MV.TS_MAX_US) <= slack for us in raw_instants(node, env))


class Checker:
    def __init__(self, acc):
        self.acc = acc

    def run(self, label, node, env, kind, tol_us=0, cached=True, zone_kind="-"):
        acc = self.acc
        exp = expected_of(node, env)
        if exp[0] == "U":
            acc.hook("unspecified-by-model")
            return
        src = lang.to_text(node)
        benv = dress(MV.cel_env(env), env)
        for r in "IC":
            out = core.eval_cached(r, src, benv) if cached else core.api_eval(r, src, benv)
            acc.hook("evaluate:" + r)
            acc.evaluations += 1
            ok = agrees(out, exp, tol_us)
            if callable(kind):
                kind_s = kind(out, exp)
            else:
                kind_s = kind
            acc.cell(label, zone_kind, kind_s, exp[0], r, "ok" if ok else "differ")
            if not ok and carried_offset_at_range_edge(node, env) and {out[0], exp[0]} == {"E", "V"}:
                acc.violation(
                    f"{r} arithmetic carried-offset-at-range-edge obs={out[0]} exp={exp[0]}",
                    f"{'interpreted' if r == 'I' else 'compiled'}: {src} with {str(env)[:160]} (bound timestamps carry offsets {dressed_offsets(env)} min) gave {core.jkey(out)[:90]}, expected {str(exp)[:90]}",
                    {"label": label, "src": src, "env": MV.enc_env(env), "runner": r, "tol": tol_us},
                )
            elif not ok:
                acc.violation(
                    f"{r} {label} zone={zone_kind} at={kind_s} obs={diag.oclass(out).split('@')[0]} exp={'E' if exp[0] == 'E' else 'V:' + exp[1][0]}",
                    f"{'interpreted' if r == 'I' else 'compiled'}: {src} with {str(env)[:160]} gave {core.jkey(out)[:90]}, expected {str(exp)[:90]}",
                    {"label": label, "src": src, "env": MV.enc_env(env), "runner": r, "tol": tol_us},
                )


def accessor_cases(ck, rnd, n):
    acc = ck.acc
    for _ in range(n):
        us = draw_ts(rnd)
        name = rnd.choice(lang.ACCESSORS)
        r = rnd.random()
        env = {"t": ("ts", us)}
        if r < 0.2:
            node, zk = Node("meth", "int", name, T), "none"
        else:
            if r < 0.3:
                z, zk = "UTC", "UTC"
            elif r < 0.7:
                if rnd.random() < 0.6:
                    z = rnd.choice(OFFSETS)
                else:
                    m = rnd.randint(-14 * 60, 14 * 60)
                    z = f"{'+' if m >= 0 else '-'}{abs(m) // 60:02d}:{abs(m) % 60:02d}"
                zk = "fixed"
            else:
                z, zk = rnd.choice(ZONES), "iana"
                y = civil.fields(us)["getFullYear"]
                if not (1970 <= y <= 2037):
                    us = (civil.days_from_civil(rnd.randint(1970, 2037), rnd.randint(1, 12), rnd.randint(1, 28)) * 86400 + rnd.randint(0, 86399)) * 10**6 + rnd.randint(0, 999999)
                    if rnd.random() < 0.4:
                        us = draw_ts(rnd)
                        if not (1970 <= civil.fields(us)["getFullYear"] <= 2037):
                            continue
                    env = {"t": ("ts", us)}
            env["z"] = ("string", z)
            node = Node("meth", "int", name, T, Z)
        acc.hook("accessor")
        k = ts_kind(us)
        if k != "mid" or zk in ("fixed", "iana"):
            acc.nt([name, us, env.get("z")])
        ck.run(name, node, env, k, zone_kind=zk)
        if rnd.random() < 0.2:
            # other instants inside the same second, same zone argument, right afterwards (sub-second fields must follow the instant)
            for _ in range(2):
                us2 = us - us % 10**6 + rnd.choice([0, 1, 999, 1000, 250000, 500000, 750000, 999000, 999999, rnd.randint(0, 999999)])
                if not (MV.TS_MIN_US <= us2 <= MV.TS_MAX_US):
                    continue
                env2 = dict(env, t=("ts", us2))
                name2 = "getMilliseconds" if rnd.random() < 0.7 else name
                node2 = Node("meth", "int", name2, *node.a[1:])
                acc.hook("accessor")
                acc.nt([name2, us2, env.get("z"), "same-second"])
                ck.run(name2, node2, env2, ts_kind(us2), zone_kind=zk)
        if rnd.random() < 0.08 and zk != "none":
            # literal forms too
            lit = Node("meth", "int", name, Node("lit", "ts", ("ts", us)), Node("lit", "string", env["z"]))
            ck.run(name, lit, {}, k, cached=False, zone_kind=zk + "-literal")
            one = Node("list", ("list", "int"), Node("lit", "int", ("int", 1)))
            nested = Node("index", "int", Node("macro", ("list", "int"), "map", one, "i", lit), Node("lit", "int", ("int", 0)))
            ck.run(name, nested, {}, k, cached=False, zone_kind=zk + "-nested-literal")


def edge_accessor_cases(ck, rnd, n):
    """Instants in range whose civil date in the requested zone is year 0 or year 10000.  The statement cannot be met there by a
    value of the supported range, so an evaluation error is accepted -- and so is the arithmetically right field (year 0 / 10000);
    anything else (e.g. a field of some other instant) is a violation.  Each instant is queried several times in a row, after an
    unrelated successful query."""
    acc = ck.acc
    for _ in range(n):
        low = rnd.random() < 0.5
        off = -rnd.choice([1, 30, 60, 300, 570, 840]) if low else rnd.choice([1, 30, 60, 330, 765, 840])
        span = abs(off) * 60 * 10**6
        us = (MV.TS_MIN_US + rnd.randrange(span)) if low else (MV.TS_MAX_US - rnd.randrange(span))
        z = f"{'+' if off >= 0 else '-'}{abs(off) // 60:02d}:{abs(off) % 60:02d}"
        decoy = {"t": ("ts", draw_ts(rnd)), "z": ("string", rnd.choice(["UTC", z, "+01:00"]))}
        env = {"t": ("ts", us), "z": ("string", z)}
        names = [rnd.choice(lang.ACCESSORS) for _ in range(3)]
        for r in "IC":
            core.eval_cached(r, "t." + rnd.choice(lang.ACCESSORS) + "(z)", MV.cel_env(decoy))
            for name in names:
                src = f"t.{name}(z)"
                out = core.eval_cached(r, src, MV.cel_env(env))
                acc.hook("evaluate:" + r)
                acc.hook("edge-accessor")
                acc.evaluations += 1
                want = civil.fields(us, off * 60)[name]
                ok = out[0] == "E" or (out[0] == "V" and out[1][0] in ("IntType", "int") and int(out[1][1]) == want)
                acc.cell("edge-accessor", r, name, "low" if low else "high", out[0], "ok" if ok else "differ")
                acc.nt(["edge", name, us, z])
                if not ok:
                    acc.violation(
                        f"{r} {name} zone=fixed at=local-year-out-of-range obs={diag.oclass(out).split('@')[0]} exp=E-or-the-civil-field",
                        f"{'interpreted' if r == 'I' else 'compiled'}: {src} with t={MV.ts_text(us)} z={z!r} (local civil year {civil.fields(us, off * 60)['getFullYear']}) gave {core.jkey(out)[:80]}; an evaluation error or {want} would be right",
                        {"label": name, "src": src, "env": MV.enc_env(env), "runner": r, "tol": 0},
                    )


def law_cases(ck, rnd, n):
    acc = ck.acc
    for j in range(n):
        label, node = LAWS[j % len(LAWS)]
        t, t2 = draw_ts(rnd), draw_ts(rnd)
        r = rnd.random()
        if r < 0.3:
            d = rnd.choice([MV.TS_MAX_US - t, MV.TS_MIN_US - t]) + rnd.choice([-1, 0, 1, 10**6, -(10**6)])
            d = max(-MV.DUR_MAX_US, min(MV.DUR_MAX_US, d))
        elif r < 0.45:
            d = t - t2 if rnd.random() < 0.7 else t - t2 + rnd.choice([-1, 1])
            d = max(-MV.DUR_MAX_US, min(MV.DUR_MAX_US, d))
        else:
            d = MV.rand_dur(rnd)
        d2 = MV.rand_dur(rnd) if rnd.random() < 0.6 else rnd.choice([MV.DUR_MAX_US - d, -MV.DUR_MAX_US - d]) + rnd.choice([-1, 0, 1])
        d2 = max(-MV.DUR_MAX_US, min(MV.DUR_MAX_US, d2))
        env = {"t": ("ts", t), "t2": ("ts", t2), "d": ("dur", d), "d2": ("dur", d2)}
        exp = expected_of(node, env)
        acc.hook("law")
        k = "error-expected" if exp[0] == "E" else ts_kind(t)
        if k != "mid" or abs(d) > MV.DUR_MAX_US - 10**9:
            acc.nt([label, t, t2, d, d2])
        ck.run(label, node, env, k, zone_kind="sign" + ("-" if d < 0 else "+"))


def duration_text(rnd):
    r = rnd.random()
    if r < 0.3:
        s = rnd.choice([0, 1, 59, 60, 61, 3599, 3600, 86399, 86400, 315576000000, 315576000001, 315575999999, rnd.randint(0, 10**9)])
        return rnd.choice(["", "-", "+"]) + f"{s}s"
    parts = []
    for unit, hi in (("h", 87660000), ("m", 99), ("s", 99), ("ms", 999), ("us", 999), ("ns", 999000)):
        if rnd.random() < 0.45:
            v = rnd.randint(0, hi) if rnd.random() < 0.9 else rnd.choice([0, 1, hi])
            if unit == "ns":
                v -= v % 1000  # keep the exact value on the microsecond grid
            if unit == "h" and rnd.random() < 0.8:
                v = rnd.randint(0, 100)
            parts.append(f"{v}{unit}")
    if rnd.random() < 0.25:
        parts.append(rnd.choice(["0.5s", "1.5s", "1.25m", "0.5h", "2.5ms", "0.25s", ".5s", "1.s", "1.000001s", "0.000001s", "1500us", "1000ns", "0.5ms"]))
    if not parts:
        parts = ["0s"]
    return rnd.choice(["", "", "-", "+"]) + "".join(parts)


def duration_cases(ck, rnd, n):
    acc = ck.acc
    node = Node("call", "dur", "duration", Node("var", "string", "s"))
    for _ in range(n):
        s = duration_text(rnd)
        acc.hook("duration-text")
        try:
            ns = lang.parse_duration_ns(s)
        except lang.Unspec:
            continue
        frac = "." in s or "ns" in s or "us" in s or "ms" in s
        big = abs(ns) > 2**53 * 1000  # beyond 2^53 microseconds a binary64 number of seconds cannot hold microseconds
        acc.nt(["dur", s])
        base = ("fraction" if frac else "integer")

        def kind(out, exp, base=base, big=big, ns=ns):
            if not big:
                return base
            # binary64 seconds: spacing at this magnitude, times the number of summed components
            exact_us = int(ns / 1000)
            allowed = int(abs(exact_us) * 2.0**-51) + 2
            if out[0] == "V" and out[1][0] in ("DurationType", "timedelta") and abs(int(out[1][1]) - exact_us) <= allowed:
                return base + "-big-float-precision"
            return base + "-big"

        ck.run("duration(text)", node, {"s": ("string", s)}, kind, tol_us=1 if frac else 0)
        if rnd.random() < 0.1:
            ck.run("duration(text)", Node("call", "dur", "duration", Node("lit", "string", ("string", s))), {}, kind, tol_us=1 if frac else 0, cached=False, zone_kind="literal")
        if rnd.random() < 0.12 and not big:
            # the literal conversion NESTED in other constructs (macro body, ?:, ||, list, arithmetic inside a macro body)
            lit = Node("call", "dur", "duration", Node("lit", "string", ("string", s)))
            one = Node("list", ("list", "int"), Node("lit", "int", ("int", 1)))
            forms = [
                Node("index", "dur", Node("macro", ("list", "dur"), "map", one, "i", lit), Node("lit", "int", ("int", 0))),
                Node("cond", "dur", Node("lit", "bool", ("bool", True)), lit, lit),
                Node("index", "dur", Node("list", ("list", "dur"), lit, lit), Node("lit", "int", ("int", 1))),
                Node("index", "dur", Node("macro", ("list", "dur"), "map", one, "i", Node("index", "dur", Node("macro", ("list", "dur"), "map", one, "j", lit), Node("lit", "int", ("int", 0)))), Node("lit", "int", ("int", 0))),
                Node("index", "dur", Node("macro", ("list", "dur"), "filter", Node("list", ("list", "dur"), lit), "e", Node("bin", "bool", "==", Node("var", "dur", "e"), lit)), Node("lit", "int", ("int", 0))),
            ]
            acc.hook("nested-literal")
            ck.run("duration(text)", rnd.choice(forms), {}, kind, tol_us=1 if frac else 0, cached=False, zone_kind="nested-literal")


def boundary_sweep(ck, ctx):
    """Every accessor at every boundary instant, no zone and three fixed offsets (partitioned)."""
    k = 0
    for us in MV.ts_boundaries():
        for name in lang.ACCESSORS:
            for z in (None, "+05:30", "-08:00", "+14:00"):
                k += 1
                if not ctx.mine(k):
                    continue
                env = {"t": ("ts", us)}
                if z is None:
                    node = Node("meth", "int", name, T)
                else:
                    env["z"] = ("string", z)
                    node = Node("meth", "int", name, T, Z)
                ck.acc.hook("accessor")
                ck.acc.nt([name, us, z])
                ck.run(name, node, env, ts_kind(us), zone_kind="none" if z is None else "fixed")
    ck.acc.exhaustive.append("10 accessors x boundary instants of the generator x {no zone, +05:30, -08:00, +14:00}")


# A host may bind a timestamp made from a datetime in an IANA zone (zoneinfo): the value denotes an instant all the same, and timestamp
# arithmetic is arithmetic on instants.  The laws are driven with such bindings around the days clocks change; a mismatch that goes away
# when the same instants are bound in UTC is attributed to the carried zone (mechanism `carried-iana-zone`).
IANA_CARRIED = ["Europe/Paris", "America/New_York", "Australia/Lord_Howe", "America/St_Johns", "Asia/Kolkata", "Pacific/Apia"]
IANA_LAWS = ["t - t2", "t + d", "d + t", "t - d", "(t + d) - d", "(t + d) - t", "t2 + (t - t2)", "t < t + d", "t - t2 == d"]


def iana_dress(benv, env, zones):
    import datetime
    import zoneinfo

    ct = core.celpy().celtypes
    epoch = datetime.datetime(1970, 1, 1, tzinfo=datetime.timezone.utc)
    for k, mvv in env.items():
        if mvv[0] == "ts":
            benv[k] = ct.TimestampType((epoch + datetime.timedelta(microseconds=mvv[1])).astimezone(zoneinfo.ZoneInfo(zones[k])))
    return benv


def iana_carried_cases(ck, ctx, rnd, n):
    acc = ck.acc
    laws = [(label, node) for label, node in LAWS if label in IANA_LAWS]
    switch_days = [(2021, 3, 14), (2021, 11, 7), (2023, 3, 26), (2023, 10, 29), (2021, 4, 4), (2021, 10, 3), (2022, 3, 27), (2022, 4, 3), (2030, 6, 15), (1999, 12, 31)]
    for i in range(n):
        label, node = laws[i % len(laws)]
        base = rnd.choice(switch_days)
        us = (civil.days_from_civil(*base) * 86400 + rnd.randint(-86400, 2 * 86400)) * 10**6
        d_us = rnd.choice([3600, 7200, 86400, -86400, 1800, 2 * 86400, 30 * 86400, -3600, 200 * 86400, rnd.randint(-400 * 86400, 400 * 86400)]) * 10**6
        env = {"t": ("ts", us), "t2": ("ts", us - d_us), "d": ("dur", d_us)}
        same = rnd.random() < 0.6
        z1 = rnd.choice(IANA_CARRIED)
        zones = {"t": z1, "t2": z1 if same else rnd.choice(IANA_CARRIED)}
        exp = expected_of(node, env)
        if exp[0] == "U":
            continue
        src = lang.to_text(node)
        benv = iana_dress(MV.cel_env(env), env, zones)
        for r in "IC":
            out = core.eval_cached(r, src, benv)
            acc.hook("evaluate:" + r)
            acc.hook("iana-carried-timestamp")
            acc.evaluations += 1
            ok = agrees(out, exp)
            acc.cell(label, "carried-iana", "same-zone" if same else "two-zones", exp[0], r, "ok" if ok else "differ")
            if ok:
                continue
            plain = core.eval_cached(r, src, MV.cel_env(env))
            carried = agrees(plain, exp)
            acc.violation(
                f"{r} arithmetic {'carried-iana-zone' if carried else 'plain'} law={label.replace(' ', '')} obs={diag.oclass(out).split('@')[0]} exp={'E' if exp[0] == 'E' else 'V:' + exp[1][0]}",
                f"{'interpreted' if r == 'I' else 'compiled'}: {src} with t={MV.ts_text(us)} carried in {zones['t']}, t2={MV.ts_text(us - d_us)} carried in {zones['t2']}, d={d_us // 10**6}s gave {core.jkey(out)[:90]}, expected {str(exp)[:90]}"
                + ("; the same instants bound in UTC give the expected outcome" if carried else ""),
                {"label": label, "src": src, "env": MV.enc_env(env), "runner": r, "tol": 0, "zones": zones},
            )


def run(ctx):
    acc = ctx.acc
    rnd = ctx.rnd
    core.celpy()
    ck = Checker(acc)
    boundary_sweep(ck, ctx)
    iana_carried_cases(ck, ctx, rnd, ctx.scale(3600, 72000))
    edge_accessor_cases(ck, rnd, ctx.scale(2400, 48000))
    accessor_cases(ck, rnd, ctx.scale(48000, 960000))
    law_cases(ck, rnd, ctx.scale(36000, 720000))
    duration_cases(ck, rnd, ctx.scale(18000, 360000))
    acc.sample({"law": "(t + d) - d", "t": MV.ts_text(1234567890 * 10**6), "d_us": 1500000})
    acc.sample({"accessor": "getDayOfWeek", "zone": "Australia/Lord_Howe"})
    acc.sample({"duration_text": duration_text(rnd)})


def replay(case):
    core.celpy()
    env = MV.dec_env(case["env"])
    benv = MV.cel_env(env)
    if case.get("zones"):
        benv = iana_dress(benv, env, case["zones"])
    out = core.api_eval(case["runner"], case["src"], benv)
    import json

    return True if out is None else (False if False else _replay_judge(case, env, out))


def _replay_judge(case, env, out):
    # rebuild the node from the label
    node = None
    for label, n in LAWS:
        if label == case["label"]:
            node = n
    if node is None:
        if case["label"] == "duration(text)":
            node = Node("call", "dur", "duration", Node("var", "string", "s")) if "s" in env else None
        elif case["label"].startswith("duration."):
            node = Node("meth", "int", case["label"].split(".")[1], D)
        elif "z" in env:
            node = Node("meth", "int", case["label"], T, Z)
        else:
            node = Node("meth", "int", case["label"], T)
    if node is None:
        return True, "literal-form case: re-run the check"
    exp = expected_of(node, env)
    ok = exp[0] == "U" or agrees(out, exp, case.get("tol", 0))
    return ok, f"{case['src']} with {env} [{case['runner']}] -> {out}\nexpected {exp}"
