"""C01  Numeric operators are exact: int64/uint64 overflow-checked, double IEEE-754."""

from __future__ import annotations

import math
import operator
from fractions import Fraction

from .. import core, hooks, lang, mv as MV

ID = "C01"
READY = True
LEVEL = "exploration"
WORKERS = {"quick": 8, "thorough": 16}
BUDGET = {"quick": 150, "thorough": 400}
MIN_NONTRIVIAL = {"quick": 4000, "thorough": 100000}
REQUIRED_HOOKS = ["compound", "nested-form", "shared-environment", "IntType.__add__", "IntType.__truediv__", "IntType.__mod__", "IntType.__neg__", "UintType.__sub__", "UintType.__neg__", "DoubleType.__truediv__", "evaluate:I", "evaluate:C", "direct"]
RULE = (
    "Operand pairs from a boundary x boundary grid (MIN, MAX, 0, +-1, 2^k, 2^k+-1 ...; doubles +-0, subnormal, 2^53, +-max, +-inf) plus seeded random pairs, "
    "for + - * / % and unary minus, through (i) direct calls of the celtypes operators, (ii) reflected calls with a plain int/float left operand, "
    "(iii) parsed expressions with literal operands and (iv) with bound variables, under both runners (half of them compiled in one long-lived Environment per runner and worker, "
    "the others in a fresh Environment each), while recording wrappers on the "
    "IntType/UintType/DoubleType dunder methods check every operator call the engines make. Oracle: exact integer arithmetic with range check; "
    "doubles via exact rational arithmetic rounded to binary64 plus an IEEE special-case table. (v) compound expressions: random trees (depth <= 3, thorough 4) of "
    "+ - * / % and unary minus in its three spellings (-(e), - e, -e; nested negations included) over three bound variables and literals of one numeric type, "
    "both runners; every application in the tree is judged by the same oracle and the outcome is an error as soon as one application is. distinct_nontrivial = distinct (type, op, a, b) whose exact "
    "result is an error, lies within 2 of a range bound, or has a zero/negative/non-finite operand."
)
TECHNIQUE = (
    "runtime monitoring: recording wrappers on the celtypes operator methods + parsed expressions under both runners, checked against an exact integer / IEEE-754 reference on boundary grids, random operands, compound and nested expressions"
)
ASSUMPTIONS = [
    "only same-type operand pairs are asserted (mixed types are outside the statement)",
    "the class of the result is C13's business; values are compared by number / bit pattern",
    "% on doubles is not asserted (not defined by the statement)",
    "reflected calls with a plain Python int/float left operand must give the same exact result",
]

OPS = {"+": operator.add, "-": operator.sub, "*": operator.mul, "/": operator.truediv, "%": operator.mod}
DUNDER_OP = {"__add__": "+", "__sub__": "-", "__mul__": "*", "__truediv__": "/", "__floordiv__": "/", "__mod__": "%",
             "__radd__": "+", "__rsub__": "-", "__rmul__": "*", "__rtruediv__": "/", "__rfloordiv__": "/", "__rmod__": "%"}


# ---------------------------------------------------------------- oracle
class Err(Exception):
    pass


def exact_int(op, a, b, lo, hi):
    if op == "+":
        r = a + b
    elif op == "-":
        r = a - b
    elif op == "*":
        r = a * b
    elif op == "/":
        if b == 0:
            raise Err("zero divisor")
        q = abs(a) // abs(b)
        r = q if (a < 0) == (b < 0) else -q
    elif op == "%":
        if b == 0:
            raise Err("zero divisor")
        m = abs(a) % abs(b)
        r = -m if a < 0 else m
    elif op == "neg":
        if lo == 0:
            raise Err("negating a uint")
        r = -a
    else:
        raise ValueError(op)
    if not (lo <= r <= hi):
        raise Err("overflow")
    return r


def sgn(x):
    return math.copysign(1.0, x) < 0


def ieee(op, a, b):
    """IEEE-754 binary64 result computed without floating-point arithmetic on the operands."""
    inf = math.inf
    if a != a or b != b:
        return math.nan
    if op == "-":
        return ieee("+", a, -b)
    ai, bi = a in (inf, -inf), b in (inf, -inf)
    if op == "+":
        if ai and bi:
            return math.nan if a != b else a
        if ai:
            return a
        if bi:
            return b
        ex = Fraction(a) + Fraction(b)
        if ex == 0:
            return -0.0 if (a == 0 and b == 0 and sgn(a) and sgn(b)) else 0.0
        return rnd_frac(ex)
    neg = sgn(a) != sgn(b)
    if op == "*":
        if ai or bi:
            if a == 0 or b == 0:
                return math.nan
            return -inf if neg else inf
        ex = Fraction(a) * Fraction(b)
        if ex == 0:
            return -0.0 if neg else 0.0
        return rnd_frac(ex)
    if op == "/":
        if ai and bi:
            return math.nan
        if ai:
            return -inf if neg else inf
        if bi:
            return -0.0 if neg else 0.0
        if b == 0:
            if a == 0:
                return math.nan
            return -inf if neg else inf
        ex = Fraction(a) / Fraction(b)
        if ex == 0:
            return -0.0 if neg else 0.0
        return rnd_frac(ex)
    raise ValueError(op)


def rnd_frac(ex: Fraction) -> float:
    try:
        r = ex.numerator / ex.denominator  # int/int true division is correctly rounded
    except OverflowError:
        return -math.inf if ex < 0 else math.inf
    if r == 0:
        return -0.0 if ex < 0 else 0.0
    return r


def near(v, lo, hi):
    return v - lo <= 2 or hi - v <= 2


RANGE = {"int": (MV.INT_MIN, MV.INT_MAX), "uint": (0, MV.UINT_MAX)}


def expected(t, op, a, b):
    """('V', number) or ('E',)"""
    if t == "double":
        if op == "neg":
            return ("V", -a)
        return ("V", ieee(op, a, b))
    lo, hi = RANGE[t]
    try:
        return ("V", exact_int(op, a, b, lo, hi))
    except Err:
        return ("E",)


def same_num(t, obs, exp):
    if t == "double":
        return core.dbits(float(obs)) == core.dbits(float(exp))
    return int(obs) == exp


def is_nontrivial(t, op, a, b, exp):
    if exp[0] == "E":
        return True
    if t == "double":
        vals = [a] + ([] if b is None else [b]) + [exp[1]]
        return any(v == 0 or v != v or v in (math.inf, -math.inf) or v < 0 for v in vals)
    lo, hi = RANGE[t]
    return near(exp[1], lo, hi) or a <= 0 or (b is not None and b <= 0)


def sign_class(v):
    if v is None:
        return "-"
    if v != v:
        return "nan"
    if v in (math.inf, -math.inf):
        return "inf"
    if v == 0:
        return "-0" if isinstance(v, float) and sgn(v) else "0"
    return "neg" if v < 0 else "pos"


# ---------------------------------------------------------------- monitor on the dunder methods
class Monitor:
    def __init__(self, acc):
        self.acc = acc
        c = core.celpy()
        self.ct = c.celtypes
        self.types = {self.ct.IntType: "int", self.ct.UintType: "uint", self.ct.DoubleType: "double"}
        self.path = "?"
        self.active = True

    def install(self):
        for cls in self.types:
            for name in list(DUNDER_OP) + ["__neg__"]:
                hooks.wrap_method(cls, name, self.observe)

    def observe(self, cls, name, args, kwargs, res, exc):
        if not self.active:
            return
        t = self.types[cls]
        self_v = args[0]
        if type(self_v) is not cls:
            return
        if name == "__neg__":
            a, b, op = self_v, None, "neg"
            reflected = False
        else:
            other = args[1] if len(args) > 1 else None
            reflected = name.startswith("__r")
            if reflected:
                # left operand is a plain Python number of the matching kind
                if t == "double":
                    if type(other) not in (float, cls):
                        return
                elif type(other) not in (int, cls):
                    return
                a, b = other, self_v
            else:
                if type(other) is not cls:
                    return
                a, b = self_v, other
            op = DUNDER_OP[name]
        if t == "double" and op == "%":
            return
        av = float(a) if t == "double" else int(a)
        bv = None if b is None else (float(b) if t == "double" else int(b))
        if t != "double":
            lo, hi = RANGE[t]
            if not (lo <= av <= hi) or (bv is not None and not (lo <= bv <= hi)):
                return
        exp = expected(t, op, av, bv)
        self.acc.hook(f"{cls.__name__}.{name}")
        self.acc.evaluations += 1
        if exc is not None:
            if exp[0] == "V":
                self.report(t, op, av, bv, f"raised {type(exc).__name__}", exp, "dunder" + ("-reflected" if reflected else ""))
            return
        if isinstance(res, BaseException) or res is NotImplemented:
            if exp[0] == "V":
                self.report(t, op, av, bv, f"returned {type(res).__name__}", exp, "dunder" + ("-reflected" if reflected else ""))
            return
        if exp[0] == "E":
            self.report(t, op, av, bv, res, exp, "dunder" + ("-reflected" if reflected else ""))
        elif not same_num(t, res, exp[1]):
            self.report(t, op, av, bv, res, exp, "dunder" + ("-reflected" if reflected else ""))

    def report(self, t, op, a, b, obs, exp, path):
        report(self.acc, t, op, a, b, obs, exp, path + "<" + self.path + ">")


def classify(t, op, a, b, obs, exp):
    """Mechanism slug from structural features of the witness."""
    if isinstance(obs, str):
        o = obs.replace(" ", "-")
    elif t == "double":
        o = "value:" + sign_class(float(obs)) if not isinstance(obs, str) else obs
    else:
        lo, hi = RANGE[t]
        o = "value-out-of-range" if not (lo <= int(obs) <= hi) else "value"
    if exp[0] == "E":
        e = "error(" + ("zero-divisor" if op in "/%" and b == 0 else ("neg-uint" if op == "neg" and t == "uint" else "overflow")) + ")"
    elif t == "double":
        e = "value:" + sign_class(exp[1])
    else:
        e = "value"
    operands = f"{sign_class(a)},{sign_class(b)}"
    return f"{t} {op} ({operands}) obs={o} exp={e}"


def report(acc, t, op, a, b, obs, exp, path):
    slug = classify(t, op, a, b, obs, exp)
    oshow = obs if isinstance(obs, str) else (repr(float(obs)) if t == "double" else str(int(obs)))
    eshow = "evaluation error" if exp[0] == "E" else repr(exp[1])
    acc.violation(
        slug,
        f"[{path}] {t}: {a!r} {op} {b!r} gave {oshow}, expected {eshow}",
        {"t": t, "op": op, "a": enc(t, a), "b": enc(t, b), "path": path},
    )


def enc(t, v):
    if v is None:
        return None
    if t == "double":
        return "nan" if v != v else float(v).hex()
    return str(v)


def dec(t, s):
    if s is None:
        return None
    if t == "double":
        return math.nan if s == "nan" else float.fromhex(s)
    return int(s)


# ---------------------------------------------------------------- the four paths
def mk(t, v):
    ct = core.celpy().celtypes
    return {"int": ct.IntType, "uint": ct.UintType, "double": ct.DoubleType}[t](v)


def judge(acc, t, op, a, b, path, out):
    """out: ('V', number) | ('E', excname) | ('X', excname)"""
    exp = expected(t, op, a, b)
    acc.evaluations += 1
    acc.cell(t, op, path, sign_class(a), sign_class(b), exp[0])
    if is_nontrivial(t, op, a, b, exp):
        acc.nt([t, op, enc(t, a), enc(t, b)])
    if out[0] == "X":
        report(acc, t, op, a, b, f"non-CEL exception {out[1]}", exp, path)
        return
    if out[0] == "E":
        if exp[0] == "V":
            report(acc, t, op, a, b, f"raised {out[1]}", exp, path)
        return
    if exp[0] == "E" or not same_num(t, out[1], exp[1]):
        report(acc, t, op, a, b, out[1], exp, path)


def direct(acc, t, op, a, b):
    acc.hook("direct")
    try:
        if op == "neg":
            r = operator.neg(mk(t, a))
        else:
            r = OPS[op](mk(t, a), mk(t, b))
        if isinstance(r, BaseException):
            out = ("E", type(r).__name__)
        else:
            out = ("V", r)
    except (ValueError, ZeroDivisionError, TypeError, OverflowError) as ex:
        out = ("E", type(ex).__name__)
    except Exception as ex:
        out = ("X", type(ex).__name__)
    judge(acc, t, op, a, b, "direct", out)


def reflected(acc, t, op, a, b):
    if op == "neg":
        return
    try:
        left = float(a) if t == "double" else int(a)
        r = OPS[op](left, mk(t, b))
        if isinstance(r, BaseException):
            out = ("E", type(r).__name__)
        else:
            out = ("V", r)
    except (ValueError, ZeroDivisionError, TypeError, OverflowError) as ex:
        out = ("E", type(ex).__name__)
    except Exception as ex:
        out = ("X", type(ex).__name__)
    judge(acc, t, op, a, b, "reflected", out)


_SHARED_ENV = {}


def eval_in_shared_env(runner, src, bind):
    """Like core.api_eval(raw=True), but every program of this worker is compiled in ONE long-lived Environment per
    runner class (an application compiles many expressions in one environment): int, uint and double literals with
    the same digits, and the same operator on other operand types, meet in that environment's state."""
    c = core.celpy()
    env = _SHARED_ENV.get(runner)
    if env is None:
        env = _SHARED_ENV[runner] = c.Environment(runner_class=core.runner_class(runner))
    try:
        prog = env.program(env.compile(src))
        v = prog.evaluate(bind)
    except c.CELParseError as ex:
        return ["P", ex.line, ex.column, ex]
    except c.CELEvalError as ex:
        return ["E", ex]
    except Exception as ex:
        return ["X", "shared-env", type(ex).__name__, core._left_from(ex), core._msg(ex), ex]
    return ["V", core.canon(v), v]


def via_expr(acc, mon, t, op, a, b, runner, literal, rnd):
    if literal:
        try:
            la = spell(t, a, rnd)
            lb = None if b is None else spell(t, b, rnd)
        except ValueError:
            return
        if op == "neg":
            src = rnd.choice([f"-({la})", f"- {la}"]) if not la.startswith("-") else f"-({la})"
        else:
            src = f"{la} {op} {lb}"
        bind = {}
        path = "literal:" + runner
    else:
        src = "-x" if op == "neg" else f"x {op} y"
        bind = {"x": mk(t, a)}
        if b is not None:
            bind["y"] = mk(t, b)
        path = "bound:" + runner
    mon.path = path
    if rnd.random() < 0.5:
        o = eval_in_shared_env(runner, src, bind)
        acc.hook("shared-environment")
    else:
        o = core.api_eval(runner, src, bind, raw=True)
    mon.path = "?"
    acc.hook("evaluate:" + runner)
    if o[0] == "V":
        v = o[-1]
        if isinstance(v, bool) or not isinstance(v, (int, float)):
            out = ("X", "non-numeric result " + type(v).__name__)
        else:
            out = ("V", v)
    elif o[0] == "E":
        out = ("E", "CELEvalError")
    else:
        out = ("X", f"{o[2]}@{o[1]}" if o[0] == "X" else "parse error")
    judge(acc, t, op, a, b, path, out)


def spell(t, v, rnd):
    if t == "int":
        r = rnd.random()
        if r < 0.75:
            return str(v)
        if r < 0.9:
            return ("-" if v < 0 else "") + "0x" + format(abs(v), "x")
        return ("-" if v < 0 else "") + "0x" + format(abs(v), "X")
    if t == "uint":
        return (str(v) if rnd.random() < 0.8 else "0x" + format(v, "x")) + rnd.choice("uU")
    return MV.double_lit(v)


# ---------------------------------------------------------------- compound expressions
# Trees of arithmetic operators over same-type operands (bound variables and literals at boundary
# values): the statement is about every operator application the engines make, also the ones
# nested inside a larger expression (a transpiler that rewrites -(-x) to x, folds constants or
# reassociates would be exact on every single-operator program).  Every application in the tree is
# judged by the same oracle; the outcome is an error as soon as one application is.
NEG_FORMS = ("-({})", "- {}", "-{}")


def gen_tree(rnd, t, depth, nvars):
    r = rnd.random()
    if depth <= 0 or r < 0.22:
        if rnd.random() < 0.7:
            return ("var", rnd.randrange(nvars))
        return ("lit", pick_value(rnd, t, small=rnd.random() < 0.5))
    if r < 0.5:
        return ("neg", gen_tree(rnd, t, depth - 1, nvars))
    ops = ["+", "-", "*", "/"] + ([] if t == "double" else ["%"])
    return ("bin", rnd.choice(ops), gen_tree(rnd, t, depth - 1, nvars), gen_tree(rnd, t, depth - 1, nvars))


def pick_value(rnd, t, small=False):
    if t == "int":
        if small:
            return rnd.choice([-3, -2, -1, 0, 1, 2, 3, 7])
        return rnd.choice(MV._INT_B) if rnd.random() < 0.6 else MV.rand_int(rnd)
    if t == "uint":
        if small:
            return rnd.choice([0, 1, 2, 3, 7])
        return rnd.choice(MV._UINT_B) if rnd.random() < 0.6 else MV.rand_uint(rnd)
    if small:
        return rnd.choice([-2.0, -1.0, -0.0, 0.0, 0.5, 1.0, 3.0])
    return rnd.choice(MV._DBL_B) if rnd.random() < 0.6 else MV.rand_double(rnd)


def tree_text(tree, t, rnd):
    k = tree[0]
    if k == "var":
        return "xyz"[tree[1]]
    if k == "lit":
        v = tree[1]
        if t == "double":
            if v != v or v in (math.inf, -math.inf):
                raise ValueError("no literal")
            s = MV.double_lit(v)
        elif t == "uint":
            s = str(v) + "u"
        else:
            s = str(v)
        return "(" + s + ")" if s.startswith("-") else s
    if k == "neg":
        inner = tree_text(tree[1], t, rnd)
        form = rnd.choice(NEG_FORMS)
        if tree[1][0] == "bin" or (form == "-{}" and tree[1][0] == "lit"):
            form = "-({})"  # '-5' would be a literal, '-a + b' would negate a only
        return form.format(inner)
    a, b = tree_text(tree[2], t, rnd), tree_text(tree[3], t, rnd)
    if tree[2][0] == "bin":
        a = "(" + a + ")"
    if tree[3][0] == "bin" or tree[3][0] == "neg":
        b = "(" + b + ")"
    return f"{a} {tree[1]} {b}"


def tree_eval(tree, t, env):
    """Exact outcome: number, or raises Err at the first failing application (post-order)."""
    k = tree[0]
    if k == "var":
        return env[tree[1]]
    if k == "lit":
        return tree[1]
    if k == "neg":
        a = tree_eval(tree[1], t, env)
        e = expected(t, "neg", a, None)
    else:
        a = tree_eval(tree[2], t, env)
        b = tree_eval(tree[3], t, env)
        if t == "double" and tree[1] == "%":
            raise ValueError("unasserted")
        e = expected(t, tree[1], a, b)
    if e[0] == "E":
        raise Err()
    return e[1]


def skeleton(tree):
    k = tree[0]
    if k in ("var", "lit"):
        return k
    if k == "neg":
        return "neg(" + skeleton(tree[1]) + ")"
    return f"({skeleton(tree[2])}{tree[1]}{skeleton(tree[3])})"


def subtrees(tree):
    if tree[0] == "neg":
        yield from subtrees(tree[1])
    elif tree[0] == "bin":
        yield from subtrees(tree[2])
        yield from subtrees(tree[3])
    yield tree


def observe_tree(runner, tree, t, env, rnd):
    src = tree_text(tree, t, rnd)
    bind = {"xyz"[i]: mk(t, v) for i, v in enumerate(env)}
    o = core.api_eval(runner, src, bind, raw=True)
    try:
        exp = ("V", tree_eval(tree, t, env))
    except Err:
        exp = ("E",)
    if o[0] == "V":
        v = o[-1]
        ok = exp[0] == "V" and not isinstance(v, bool) and isinstance(v, (int, float)) and same_num(t, v, exp[1])
        shown = repr(v)
        oc = "value"
    elif o[0] == "E":
        ok = exp[0] == "E"
        shown = "evaluation error"
        oc = "error"
    else:
        ok = False
        shown = core.jkey(o[:4])
        oc = "X:" + str(o[2] if o[0] == "X" else "parse")
    return ok, src, shown, oc, exp


def compound(ctx, acc, mon, n):
    rnd = ctx.rnd
    mon.path = "compound"
    for i in range(n):
        if ctx.past(0.35):
            break
        t = rnd.choice(["int", "int", "uint", "double"])
        depth = rnd.choice([1, 2, 2, 3]) if not ctx.thorough else rnd.choice([1, 2, 3, 3, 4])
        tree = gen_tree(rnd, t, depth, 3)
        if tree[0] in ("var", "lit"):
            continue
        env = [pick_value(rnd, t, small=rnd.random() < 0.3) for _ in range(3)]
        try:
            try:
                exp = ("V", tree_eval(tree, t, env))
            except Err:
                exp = ("E",)
            tree_text(tree, t, rnd)
        except ValueError:
            continue
        sk = skeleton(tree)
        for runner in "IC":
            ok, src, shown, oc, _ = observe_tree(runner, tree, t, env, rnd)
            acc.hook("evaluate:" + runner)
            acc.hook("compound")
            acc.evaluations += 1
            acc.cell(t, "compound", "depth" + str(depth), runner, exp[0])
            if not ok:
                # localise: the first sub-tree (post-order) whose own evaluation disagrees
                culprit = tree
                for sub in subtrees(tree):
                    if sub[0] in ("var", "lit"):
                        continue
                    try:
                        ok2 = observe_tree(runner, sub, t, env, rnd)[0]
                    except ValueError:
                        continue
                    if not ok2:
                        culprit = sub
                        break
                acc.violation(
                    f"{t} compound {skeleton(culprit)} {'I' if runner == 'I' else 'C'} obs={oc} exp={'error' if exp[0] == 'E' else 'value'}",
                    f"[compound:{runner}] {t}: {src!r} with x,y,z={[enc(t, v) for v in env]} gave {shown}, expected {'evaluation error' if exp[0] == 'E' else repr(exp[1])} (minimal failing sub-expression shape {skeleton(culprit)})",
                    {"compound": True, "t": t, "tree": tree_enc(tree, t), "env": [enc(t, v) for v in env], "runner": runner},
                )
        if exp[0] == "E" or "neg(neg" in sk or depth >= 2:
            acc.nt([t, sk, [enc(t, v) for v in env], tree_enc(tree, t)])
        if i % 701 == 0:
            acc.sample({"type": t, "expression": tree_text(tree, t, rnd), "x,y,z": [enc(t, v) for v in env], "expected": exp[0]})
    mon.path = "?"


# ---------------------------------------------------------------- the operators nested in other constructs
# The same applications inside a macro body (over elements that are equal for Python but not for CEL: 0.0 / -0.0), in a list or map
# literal, under ?: and ||: the glue that hands operands and results between constructs must not change them.
NESTED_FORMS = [
    ("[x, y].map(v, v {op} z)", [("x", "z"), ("y", "z")], "list"), ("[x, y].map(v, z {op} v)", [("z", "x"), ("z", "y")], "list"), ("[x, y, x].map(v, v {op} z)", [("x", "z"), ("y", "z"), ("x", "z")], "list"),
    ("[x {op} z, y {op} z]", [("x", "z"), ("y", "z")], "list"), ("{{'a': x {op} z, 'b': y {op} z}}.b", [("x", "z"), ("y", "z")], "last"), ("true ? x {op} z : y {op} z", [("x", "z")], "last"),
    ("false ? x {op} z : y {op} z", [("y", "z")], "last"), ("[[x, y], [y, x]].map(l, l.map(v, v {op} z))", [("x", "z"), ("y", "z"), ("y", "z"), ("x", "z")], "nested"),
    ("[x, y].map(v, [v].map(w, w {op} z)[0])", [("x", "z"), ("y", "z")], "list"), ("[y, x].map(v, (v {op} z) {op} z)", None, "chain"),
]


def nested_forms(ctx, acc, mon, n):
    rnd = ctx.rnd
    mon.path = "nested"
    twins = {"double": [(0.0, -0.0), (-0.0, 0.0), (1.0, 1.0), (math.inf, -math.inf)], "int": [(0, 0), (MV.INT_MIN, MV.INT_MAX), (1, -1)], "uint": [(0, 0), (1, MV.UINT_MAX)]}
    for i in range(n):
        if ctx.past(0.6):
            break
        t = rnd.choice(["double", "double", "int", "uint"])
        op = rnd.choice(["+", "-", "*", "/"] + ([] if t == "double" else ["%"]))
        x, y = rnd.choice(twins[t]) if rnd.random() < 0.6 else (pick_value(rnd, t), pick_value(rnd, t))
        z = pick_value(rnd, t, small=rnd.random() < 0.5)
        tmpl, apps, shape = NESTED_FORMS[i % len(NESTED_FORMS)]
        env = {"x": x, "y": y, "z": z}
        if shape == "chain":
            exps = []
            for a in (y, x):
                e1 = expected(t, op, a, z)
                exps.append(e1 if e1[0] == "E" else expected(t, op, e1[1], z))
        else:
            exps = [expected(t, op, env[a], env[b]) for a, b in apps]
        src = tmpl.format(op=op)
        bind = {k: mk(t, v) for k, v in env.items()}
        for runner in "IC":
            o = core.api_eval(runner, src, bind, raw=True)
            acc.hook("evaluate:" + runner)
            acc.hook("nested-form")
            acc.evaluations += 1
            if any(e[0] == "E" for e in exps):
                ok = o[0] == "E"
                want = "evaluation error"
            else:
                want = [e[1] for e in exps]
                v = o[-1] if o[0] == "V" else None
                flat = None
                if o[0] == "V":
                    if shape == "last":
                        flat = [v]
                        want = want[-1:]
                    elif shape == "nested":
                        flat = [w for l in v for w in l] if isinstance(v, list) else None
                    else:
                        flat = list(v) if isinstance(v, list) else None
                ok = flat is not None and len(flat) == len(want) and all(not isinstance(g, bool) and isinstance(g, (int, float)) and same_num(t, g, w) for g, w in zip(flat, want))
            acc.cell(t, "nested", shape, runner, "ok" if ok else "differ")
            acc.nt([t, op, src, enc(t, x), enc(t, y), enc(t, z)])
            if not ok:
                acc.violation(
                    f"{t} {op} nested {shape} {runner} obs={'error' if o[0] == 'E' else ('value' if o[0] == 'V' else 'X:' + str(o[2]))} exp={'error' if want == 'evaluation error' else 'value'}",
                    f"[nested:{runner}] {t}: {src!r} with x={x!r} y={y!r} z={z!r} gave {core.jkey(o[:2])[:120]}, expected {want!r:.120}",
                    {"nested": True, "t": t, "src": src, "env": {k: enc(t, v) for k, v in env.items()}, "runner": runner},
                )
    mon.path = "?"


def tree_enc(tree, t):
    if tree[0] == "var":
        return ["var", tree[1]]
    if tree[0] == "lit":
        return ["lit", enc(t, tree[1])]
    if tree[0] == "neg":
        return ["neg", tree_enc(tree[1], t)]
    return ["bin", tree[1], tree_enc(tree[2], t), tree_enc(tree[3], t)]


def tree_dec(j, t):
    if j[0] == "var":
        return ("var", j[1])
    if j[0] == "lit":
        return ("lit", dec(t, j[1]))
    if j[0] == "neg":
        return ("neg", tree_dec(j[1], t))
    return ("bin", j[1], tree_dec(j[2], t), tree_dec(j[3], t))


def cases(ctx):
    """Yield (t, op, a, b) -- boundary grid partitioned over workers, then random pairs."""
    rnd = ctx.rnd
    ib, ub = MV.int_boundaries(), MV.uint_boundaries()
    db = MV.double_boundaries(False)
    i = 0
    for t, vals in (("int", ib), ("uint", ub), ("double", db)):
        ops = ["+", "-", "*", "/"] + ([] if t == "double" else ["%"])
        for a in vals:
            i += 1
            if ctx.mine(i):
                yield (t, "neg", a, None, True)
            for b in vals:
                for op in ops:
                    i += 1
                    if ctx.mine(i):
                        yield (t, op, a, b, True)
    n = ctx.scale(240000, 4800000)
    for _ in range(n):
        t = rnd.choice(["int", "int", "uint", "double"])
        if t == "int":
            a, b = MV.rand_int(rnd), MV.rand_int(rnd)
            if rnd.random() < 0.2:
                # products / sums landing next to the range bounds
                b = rnd.choice([MV.INT_MAX // a if a else 1, MV.INT_MIN // a if a else 1, MV.INT_MAX - a if a > 0 else MV.INT_MIN - a])
                b = max(MV.INT_MIN, min(MV.INT_MAX, b + rnd.choice([-1, 0, 1])))
        elif t == "uint":
            a, b = MV.rand_uint(rnd), MV.rand_uint(rnd)
            if rnd.random() < 0.2:
                b = rnd.choice([MV.UINT_MAX // a if a else 1, MV.UINT_MAX - a, a])
                b = max(0, min(MV.UINT_MAX, b + rnd.choice([-1, 0, 1])))
        else:
            a, b = MV.rand_double(rnd), MV.rand_double(rnd)
        op = rnd.choice(["+", "-", "*", "/", "%", "neg"] if t != "double" else ["+", "-", "*", "/", "/", "neg"])
        yield (t, op, a, None if op == "neg" else b, False)


def run(ctx):
    acc = ctx.acc
    rnd = ctx.rnd
    core.celpy()
    mon = Monitor(acc)
    mon.install()
    compound(ctx, acc, mon, ctx.scale(16000, 400000))
    nested_forms(ctx, acc, mon, ctx.scale(8000, 200000))
    k = 0
    expr_every_grid = 9 if not ctx.thorough else 3
    for t, op, a, b, grid in cases(ctx):
        if ctx.expired():
            break
        k += 1
        mon.path = "direct"
        direct(acc, t, op, a, b)
        mon.path = "reflected"
        reflected(acc, t, op, a, b)
        mon.path = "?"
        # engine paths are ~100x more expensive: sample them
        if (grid and k % expr_every_grid == 0) or (not grid and k % 12 == 0):
            finite = t != "double" or all(v is None or (v == v and v not in (math.inf, -math.inf)) for v in (a, b))
            for runner in "IC":
                via_expr(acc, mon, t, op, a, b, runner, False, rnd)
                if finite:
                    via_expr(acc, mon, t, op, a, b, runner, True, rnd)
        if k % 5003 == 0:
            acc.sample({"type": t, "op": op, "a": enc(t, a), "b": enc(t, b), "expected": expected(t, op, a, b)[0]})
    mon.active = False
    for kname, v in hooks.counts.items():
        acc.hooks.setdefault(kname, 0)
    hooks.remove_all()
    acc.exhaustive.append("boundary x boundary grid per type and operator (direct and reflected paths)")


def replay(case):
    core.celpy()
    acc = core.Acc()
    mon = Monitor(acc)
    mon.install()
    import random

    rnd = random.Random(0)
    if case.get("nested"):
        t = case["t"]
        out = core.api_eval(case["runner"], case["src"], {k: mk(t, dec(t, v)) for k, v in case["env"].items()})
        hooks.remove_all()
        return True, f"{case['src']!r} with {case['env']} under {case['runner']}: {out}"
    if case.get("compound"):
        t = case["t"]
        tree = tree_dec(case["tree"], t)
        env = [dec(t, v) for v in case["env"]]
        ok, src, shown, oc, exp = observe_tree(case["runner"], tree, t, env, rnd)
        hooks.remove_all()
        return ok, f"{t}: {src!r} with x,y,z={env!r} gave {shown}; expected {exp}"
    t, op = case["t"], case["op"]
    a, b = dec(t, case["a"]), dec(t, case["b"])
    direct(acc, t, op, a, b)
    reflected(acc, t, op, a, b)
    fin = t != "double" or all(v is None or (v == v and v not in (math.inf, -math.inf)) for v in (a, b))
    for r in "IC":
        via_expr(acc, mon, t, op, a, b, r, False, rnd)
        if fin:
            via_expr(acc, mon, t, op, a, b, r, True, rnd)
    hooks.remove_all()
    text = f"{t}: {a!r} {op} {b!r}; expected {expected(t, op, a, b)}\n" + "\n".join(v["what"] for v in acc.violations)
    return not acc.violations, text
