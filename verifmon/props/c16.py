"""C16  Concurrent evaluations in separate environments do not interfere."""

from __future__ import annotations

import sys
import threading
import time

from .. import core, diag, mv as MV, sched

ID = "C16"
READY = True
LEVEL = "exploration"
WORKERS = {"quick": 8, "thorough": 16}
BUDGET = {"quick": 140, "thorough": 720}
MIN_NONTRIVIAL = {"quick": 150, "thorough": 3000}
REQUIRED_HOOKS = ["first-use-schedule", "double-preemption-schedule", "schedule", "scheduling-point", "switch-inside-library-code", "stress-evaluation", "single-preemption-schedule"]
RULE = (
    "2-4 threads each create their own Environment and program (runner mixes: all compiled, all interpreted, mixed; different expression texts, or the same text "
    "in every thread) and evaluate their own bindings; every "
    "per-thread outcome is compared with the outcome of the same call run alone (computed single-threaded beforehand). Exploration: (1) a deterministic "
    "cooperative scheduler driven by sys.monitoring LINE events on src/celpy/*.py and the transpiler's '<string>' code -- (a) single preemption: thread A is paused at "
    "line-point i of its run (construction and evaluation phases), thread B runs to completion, A resumes; the points i are chosen by source site: the first "
    "occurrence of every distinct line A executes, rarely executed lines (<= 2 occurrences: construction code, memo fill paths) first, then a stride over the rest; (b) PCT-style "
    "schedules with 2-3 change points; (c) random walks (p = 0.02 per point); same seed => same switch trace; (2) free-running stress with "
    "sys.setswitchinterval(1e-6). distinct_nontrivial = distinct switch traces with at least one switch inside library code, plus stress rounds."
)
TECHNIQUE = (
    "runtime monitoring: forced thread interleavings through sys.monitoring (site-directed single preemption, double preemption within functions and on a coarse cross-function grid, first-use schedules, PCT/random walks) plus free-running stress; oracle = each thread's solo outcomes"
)
ASSUMPTIONS = [
    "the documented threading contract: one Environment and program per thread",
    "preemption is explored at Python-line granularity inside the library; a 30 s wait watchdog per schedule makes the schedule inconclusive, never a violation",
]

PROGRAMS = [
    ("[1, 2, 3].map(x, x * k).filter(y, y > k)[0] + k", "k", [1, 2, 3, 5]),
    ("k > 2 ? 'big' + string(k) : 'small' + string(k)", "k", [1, 2, 3, 4]),
    ("(k == 0 || 10 / k > 2) && [k, k + 1].all(e, e > 0)", "k", [0, 1, 2, 5]),
    ("{'a': k, 'b': [k, k]}.b.exists(e, e == k) ? k * 1000 : -1", "k", [7, 8, 9]),
    ("[k, 2, 0].map(z, 100 / z)", "k", [1, 4, 0]),
    ("size([k, k, k].filter(q, q % 2 == 0)) + k", "k", [1, 2, 3, 4]),
    ("has({'x': k}.x) && !has({'x': k}.y) ? k + 1 : k - 1", "k", [1, 2]),
    ("k.startsWith('a') || k.endsWith('z') ? k + '!' : k", "k", ["abc", "xyz", "mmm"]),
    # results that ARE containers (lists from map/filter, a map holding lists): what a thread was handed must stay what it was handed
    ("[k, k + 1, k + 2].map(x, x * 2)", "k", [1, 2, 3, 5]),
    ("[k, 1, 2, 3].filter(y, y > 1)", "k", [4, 5, 6]),
    ("{'m': [k].map(x, x + 1), 'f': [k, 0].filter(y, y == k), 'l': [k, [k]]}", "k", [1, 2, 3]),
    # conversions, text parsing, regular expressions, containers: other parts of the library that might keep state between calls
    # (the same input converted twice in a row, then another one, then the first again: hit and miss paths of any memo)
    ("string(duration(k) + duration(k)) + '|' + string(duration('1s') + duration(k)) + '|' + string(duration(k) > duration('1h'))", "k", ["90m", "24h", "10s", "1h1s"]),
    ("string(timestamp(k).getFullYear() * 100 + timestamp(k).getMonth()) + '|' + string(timestamp(k) - timestamp('2000-01-01T00:00:00Z') > duration('0s')) + '|' + string(timestamp(k))", "k", ["2001-02-03T04:05:06Z", "1999-12-31T23:59:59+01:00", "2038-01-19T03:14:08Z"]),
    ("int(k) * 2 + int(k) + size(k) + int(double(k)) + int('7') + int(k)", "k", ["12", "345", "-6"]),
    ("(k.matches('^a+b') ? 1 : 0) + (k.matches('^a+b') ? 10 : 0) + (k.matches('b$') ? 100 : 0) + (k.matches('^a+b') ? 1000 : 0) + k.size()", "k", ["aab", "ab", "ba", "aaab"]),
    ("{'x': k, 'y': [k]}.y[0] + {'x': k}.x + (k in [1, 2, 3] ? 100 : 200)", "k", [1, 2, 3, 5]),
    ("string(k) + '/' + string(double(k)) + '/' + string(uint(k)) + '/' + string(type(k) == int)", "k", [1, 2, 3]),
    ("bytes(k).size() * 10 + size(k + k)", "k", ["\u00e9", "ab", "", "\U0001f431"]),
    # literals with escapes (decoded when the program is built and, by the interpreter, at every evaluation)
    ("size(b'\\x01\\x02\\x03abc\\n' + bytes(string(k))) * 10 + size(b'\\141\\142\\143') + (b'\\x01\\x02' == b'\\001\\002' ? 1 : 0)", "k", [1, 22, 333]),
    ("(b'\\xff\\xfe\\xfd' + b'\\t\\r\\n').size() * 100 + size('\\u00e9\\U0001f431\\x41\\101\\n') + k", "k", [1, 2, 3]),
    # nesting at CEL's minimum limits (24 parentheses deep: more than 1000 Python frames under the interpreter)
    ("(" * 24 + "k" + " + 1)" * 24, "k", [1, 2, 3]),
    ("size([" * 12 + "k" + "])" * 12 + " + k", "k", [1, 2, 3]),
    # evaluations that FAIL, each thread with its own key / name / index in the message
    ("{'washer': 1, 'rivet': 2}[k] + {'a': 1}[k]", "k", ["washer", "rivet", "bolt", "nut"]),
    ("[1, 2, 3][k] + 10 / (k - 2)", "k", [0, 1, 2, 5]),
    ("k == 1 ? undeclared_one : (k == 2 ? undeclared_two + 1 : {'m': 1}.nokey)", "k", [1, 2, 3]),
    ("(k > 1 && unknown_name > 0) || {'x': k}.y > 0", "k", [1, 2, 3]),
]


def bindings_for(prog, j, limit=None):
    src, var, vals = prog
    out = []
    vals = list(vals[j % len(vals) :]) + list(vals[: j % len(vals)])  # threads walk the values in different orders
    for v in vals[:limit]:
        mvv = ("int", v * (j + 1)) if isinstance(v, int) else ("string", v)
        out.append({var: mvv})
    return out


def build_program(runner, prog):
    c = core.celpy()
    env = c.Environment(runner_class=core.runner_class(runner))
    return env.program(env.compile(prog[0]))


def thread_work(runner, prog, bind_list, sink, on_built=None, prebuilt=None):
    """What one thread does: its own Environment, program and evaluations.  With `prebuilt` the environment and program were
    created beforehand (for this thread alone, never shared with another one) and the thread only evaluates."""
    c = core.celpy()

    def body():
        try:
            p = prebuilt if prebuilt is not None else build_program(runner, prog)
        except Exception as ex:
            sink.append(["X", "construction", type(ex).__name__])
            return
        if on_built is not None:
            on_built()
        for b in bind_list:
            try:
                v = p.evaluate(MV.cel_env(b))
                sink.append(["V", core.canon(v)])
                if isinstance(sink, Sink):
                    sink.raw.append((len(sink) - 1, v))  # kept: looked at again once every thread is done
            except c.CELEvalError as ex:
                # the error a thread gets must be the error it gets alone: class, arguments and text (addresses masked)
                sink.append(["E", error_text(ex)])
            except Exception as ex:
                sink.append(["X", "evaluate", type(ex).__name__, core._msg(ex)[:60]])

    return body


class Sink(list):
    """The outcomes of one thread; .raw keeps (index, the value object evaluate() returned)."""

    def __init__(self):
        super().__init__()
        self.raw = []


def containers_in(v, depth=0):
    """ids of the mutable containers reachable from a returned value."""
    out = {}
    if depth > 6:
        return out
    if isinstance(v, list):
        out[id(v)] = v
        for x in v:
            out.update(containers_in(x, depth + 1))
    elif isinstance(v, dict):
        out[id(v)] = v
        for k, x in v.items():
            out.update(containers_in(x, depth + 1))
    return out


def later_check(acc, kind, label, specs, sinks):
    """After every thread has finished: a value handed back by evaluate() still reads what it read when it was handed back, and no
    mutable container is reachable from the results of two different threads (each thread built its own program and bindings)."""
    good = True
    owners = {}
    for j, sink in enumerate(sinks):
        for i, v in getattr(sink, "raw", []):
            acc.hook("result-re-read-after-all-threads-finished")
            try:
                now = core.canon(v)
            except Exception as ex:  # pragma: no cover
                now = ["unreadable", type(ex).__name__]
            other = "".join(sorted({r for k, (r, _) in enumerate(specs) if k != j}))
            if i < len(sink) and sink[i][0] == "V" and now != sink[i][1]:
                good = False
                acc.violation(
                    f"thread-runner={specs[j][0]} other-runners={other} phase=after-return result-changed-after-it-was-returned",
                    f"[{kind} {label}] thread {j} ({specs[j][0]}) evaluating {specs[j][1][0]!r}: call {i} returned {core.jkey(sink[i][1])[:80]}; once all threads had finished the same object read {core.jkey(now)[:80]}",
                    {"kind": kind, "specs": [[r, PROGRAMS.index(p) if p in PROGRAMS else -1] for r, p in specs], "label": label},
                )
            for oid, obj in containers_in(v).items():
                first = owners.setdefault(oid, (j, obj))
                if first[0] != j and first[1] is obj:
                    good = False
                    acc.violation(
                        f"thread-runner={specs[j][0]} other-runners={other} phase=after-return result-object-shared-between-threads",
                        f"[{kind} {label}] a {type(obj).__name__} reachable from the result of thread {first[0]} is the same object as one reachable from call {i} of thread {j} ({specs[j][1][0]!r})",
                        {"kind": kind, "specs": [[r, PROGRAMS.index(p) if p in PROGRAMS else -1] for r, p in specs], "label": label},
                    )
    return good


def error_text(ex):
    import re

    try:
        t = f"{ex}|{ex.args!r}"
    except Exception:
        t = "<unprintable>"
    return re.sub(r"0x[0-9a-fA-F]+", "0x?", t)[:400]


def solo(runner, prog, bind_list):
    sink = []
    thread_work(runner, prog, bind_list, sink)()
    return sink


def interesting(filename: str) -> bool:
    return filename == "<string>" or "/src/celpy/" in filename


class Explorer:
    def __init__(self, acc):
        self.acc = acc
        self.s = sched.Scheduler(interesting)
        self.traces = set()
        self.solo_cache = {}
        self.site_code = {}  # (file, line) -> code object, learnt in profiling runs

    def run_schedule(self, kind, specs, policy, label, limits=None, fresh_bindings=None):
        """specs: list of (runner, program); returns True when every thread matched its solo outcome.
        fresh_bindings: explicit binding lists (one per thread) holding values this process has never seen: the solo outcomes are
        then computed AFTER the concurrent run, so that nothing in the process is warmed up for them beforehand."""
        acc = self.acc
        sinks = [Sink() for _ in specs]
        bodies = []
        solos = []
        bls = []
        for j, (runner, prog) in enumerate(specs):
            bl = fresh_bindings[j] if fresh_bindings else bindings_for(prog, j, limits[j] if limits else None)
            bls.append(bl)
            if not fresh_bindings:
                key = (runner, prog[0], j, limits[j] if limits else None)
                if key not in self.solo_cache:
                    self.solo_cache[key] = solo(runner, prog, bl)  # the same calls made alone, single-threaded
                solos.append(self.solo_cache[key])
            bodies.append(thread_work(runner, prog, bl, sinks[j], on_built=(lambda j=j: self.s.built.__setitem__(j, True))))
        self.s.install()
        ok_run = self.s.run(bodies, policy)
        if fresh_bindings:
            self.s.policy = None
            solos = [solo(runner, prog, bl) for (runner, prog), bl in zip(specs, bls)]
        acc.hook("schedule")
        acc.hook("scheduling-point", self.s.points)
        inside = [sw for sw in self.s.switches if sw[2] > 0]
        if inside:
            acc.hook("switch-inside-library-code", len(inside))
        acc.evaluations += sum(len(x) for x in sinks)
        key = self.s.trace_key()
        mix = "".join(r for r, _ in specs)
        if inside and key not in self.traces:
            self.traces.add(key)
            acc.nt([kind, mix, [p[0] for _, p in specs], key])
        acc.cell(kind, mix, "switches%d" % min(len(inside), 4), "ok" if ok_run else "watchdog")
        acc.extra["preemption_sites"] = sorted(set(acc.extra.get("preemption_sites", [])) | {f"{f}:{l}" for f, l in list(self.s.sites)[:40]})[:200]
        if not ok_run:
            acc.inconclusive.append(f"scheduler watchdog fired in a {kind} schedule ({label})")
            return True
        good = later_check(acc, kind, label, specs, sinks)
        for j, (got, want) in enumerate(zip(sinks, solos)):
            if got != want:
                good = False
                k = next((i for i, (g, w) in enumerate(zip(got, want)) if g != w), min(len(got), len(want)))
                g = got[k] if k < len(got) else ["missing"]
                w = want[k] if k < len(want) else ["missing"]
                other = [r for i, (r, _) in enumerate(specs) if i != j]
                acc.violation(
                    f"thread-runner={specs[j][0]} other-runners={''.join(sorted(set(other)))} phase={'construction' if g[:2] == ['X', 'construction'] else 'evaluate'} obs={diag.oclass(g) if g[0] in 'VEXP' else g[0]} solo={diag.oclass(w) if w[0] in 'VEXP' else w[0]}",
                    f"[{kind} {label}] thread {j} ({specs[j][0]}) evaluating {specs[j][1][0]!r}: call {k} returned {core.jkey(g)[:80]} but {core.jkey(w)[:80]} when run alone; switches {key[:120]}",
                    {"kind": kind, "specs": [[r, PROGRAMS.index(p) if p in PROGRAMS else -1] for r, p in specs], "label": label},
                )
        return good

    def fast_schedule(self, kind, specs, site, occurrence, label, limits=None, fresh_bindings=None, after_built=False, prebuilt=(None, None)):
        """Single preemption of thread 0 at (site, occurrence), thread 1 running to completion meanwhile; uses the per-code-object
        monitor when the site's code object is known and stable (library code), the baton scheduler otherwise ('<string>' code)."""
        code = self.site_code.get(site)
        if code is None or site[0] == "<string>":
            return self.run_schedule(kind, specs, sched.preempt_at_site(site, occurrence, first_after_built=after_built), label, limits=limits, fresh_bindings=fresh_bindings)
        acc = self.acc
        sinks = [Sink() for _ in specs]
        bls, solos = [], []
        for j, (runner, prog) in enumerate(specs):
            bl = fresh_bindings[j] if fresh_bindings else bindings_for(prog, j, limits[j] if limits else None)
            bls.append(bl)
            if not fresh_bindings:
                key = (runner, prog[0], j, limits[j] if limits else None)
                if key not in self.solo_cache:
                    self.solo_cache[key] = solo(runner, prog, bl)
                solos.append(self.solo_cache[key])
        built = {}
        body_a = thread_work(specs[0][0], specs[0][1], bls[0], sinks[0], on_built=lambda: built.__setitem__(0, True), prebuilt=prebuilt[0])
        body_b = thread_work(specs[1][0], specs[1][1], bls[1], sinks[1], prebuilt=prebuilt[1])
        switched, finished = self.s.run_fast(code, site[1], occurrence, body_a, body_b, armed=(lambda: built.get(0, False)) if after_built else None)
        if fresh_bindings:
            solos = [solo(runner, prog, bl) for (runner, prog), bl in zip(specs, bls)]
        acc.hook("schedule")
        acc.hook("fast-schedule")
        if switched:
            acc.hook("switch-inside-library-code")
            tkey = f"fast:{kind}:{specs[0][0]}{specs[1][0]}:{specs[0][1][0][:40]}|{specs[1][1][0][:40]}:{site[0]}:{site[1]}#{occurrence}"
            if tkey not in self.traces:
                self.traces.add(tkey)
                acc.nt([tkey])
        acc.evaluations += sum(len(x) for x in sinks)
        mix = "".join(r for r, _ in specs)
        acc.cell(kind, mix, "switches%d" % (1 if switched else 0), "ok" if finished else "watchdog")
        if not finished:
            acc.inconclusive.append(f"a thread did not finish in a {kind} schedule ({label})")
            return True
        good = later_check(acc, kind, label, specs, sinks)
        for j, (got, want) in enumerate(zip(sinks, solos)):
            if got != want:
                good = False
                k = next((i for i, (g, w) in enumerate(zip(got, want)) if g != w), min(len(got), len(want)))
                g = got[k] if k < len(got) else ["missing"]
                w = want[k] if k < len(want) else ["missing"]
                other = [r for i, (r, _) in enumerate(specs) if i != j]
                acc.violation(
                    f"thread-runner={specs[j][0]} other-runners={''.join(sorted(set(other)))} phase={'construction' if g[:2] == ['X', 'construction'] else 'evaluate'} obs={diag.oclass(g) if g[0] in 'VEXP' else g[0]} solo={diag.oclass(w) if w[0] in 'VEXP' else w[0]}",
                    f"[{kind} {label}] thread {j} ({specs[j][0]}) evaluating {specs[j][1][0]!r}: call {k} returned {core.jkey(g)[:80]} but {core.jkey(w)[:80]} when run alone; thread 0 was preempted before {site[0]}:{site[1]} (occurrence {occurrence}) while thread 1 ran to completion",
                    {"kind": kind, "specs": [[r, PROGRAMS.index(p) if p in PROGRAMS else -1] for r, p in specs], "label": label},
                )
        return good

    def double_schedule(self, specs, site1, site2, label, limits, prebuilt):
        """Thread 0 paused before site1, thread 1 started and paused before site2 (first occurrences), thread 0 finishes, thread 1
        finishes.  Both sites must be in library code with known code objects."""
        c1, c2 = self.site_code.get(site1), self.site_code.get(site2)
        if c1 is None or c2 is None or "<string>" in (site1[0], site2[0]):
            return True
        acc = self.acc
        sinks = [Sink(), Sink()]
        bls, solos = [], []
        for j, (runner, prog) in enumerate(specs):
            bl = bindings_for(prog, j, limits[j])
            bls.append(bl)
            key = (runner, prog[0], j, limits[j])
            if key not in self.solo_cache:
                self.solo_cache[key] = solo(runner, prog, bl)
            solos.append(self.solo_cache[key])
        body_a = thread_work(specs[0][0], specs[0][1], bls[0], sinks[0], prebuilt=prebuilt[0])
        body_b = thread_work(specs[1][0], specs[1][1], bls[1], sinks[1], prebuilt=prebuilt[1])
        a_p, b_p, finished = self.s.run_fast2(c1, site1[1], 1, c2, site2[1], 1, body_a, body_b)
        acc.hook("schedule")
        acc.hook("double-preemption-schedule")
        if b_p:
            acc.hook("both-threads-paused")
            tkey = f"fast2:{specs[0][0]}{specs[1][0]}:{specs[0][1][0][:40]}:{site1[0]}:{site1[1]}>{site2[0]}:{site2[1]}"
            if tkey not in self.traces:
                self.traces.add(tkey)
                acc.nt([tkey])
        acc.evaluations += len(sinks[0]) + len(sinks[1])
        acc.cell("double-preemption", specs[0][0] + specs[1][0], "both-paused" if b_p else ("one-paused" if a_p else "none"), "ok" if finished else "watchdog")
        if not finished:
            acc.inconclusive.append(f"a thread did not finish in a double-preemption schedule ({label})")
            return True
        good = later_check(acc, "double-preemption", label, specs, sinks)
        for j, (got, want) in enumerate(zip(sinks, solos)):
            if got != want:
                good = False
                k = next((i for i, (g, w) in enumerate(zip(got, want)) if g != w), min(len(got), len(want)))
                g = got[k] if k < len(got) else ["missing"]
                w = want[k] if k < len(want) else ["missing"]
                acc.violation(
                    f"thread-runner={specs[j][0]} other-runners={specs[1 - j][0]} phase=evaluate obs={diag.oclass(g) if g[0] in 'VEXP' else g[0]} solo={diag.oclass(w) if w[0] in 'VEXP' else w[0]}",
                    f"[double-preemption {label}] thread {j} ({specs[j][0]}) evaluating {specs[j][1][0]!r}: call {k} returned {core.jkey(g)[:80]} but {core.jkey(w)[:80]} when run alone; thread 0 paused before {site1[0]}:{site1[1]}, thread 1 run up to {site2[0]}:{site2[1]}, thread 0 finished, thread 1 finished",
                    {"kind": "double-preemption", "specs": [[r, PROGRAMS.index(p) if p in PROGRAMS else -1] for r, p in specs], "label": label},
                )
        return good

    def count_points(self, runner, prog, limit=None):
        """Number of scheduling points of thread A's solo run."""
        sink = []
        self.s.install()
        self.s.run([thread_work(runner, prog, bindings_for(prog, 0, limit), sink)], sched.never)
        return self.s.points_by_thread.get(0, 0)

    def profile(self, runner, prog, limit=None):
        """Solo run of thread A recording the source site of every scheduling point.
        Returns (number of points, {site: index of its first occurrence}, {site: occurrences})."""
        sink = []
        built_at = []
        self.s.install()
        self.s.site_log = []
        self.s.site_code = self.site_code
        try:
            self.s.run([thread_work(runner, prog, bindings_for(prog, 0, limit), sink, on_built=lambda: built_at.append(len(self.s.site_log)))], sched.never)
            log = self.s.site_log
        finally:
            self.s.site_log = None
            self.s.site_code = None
        first, count = {}, {}
        self.construction_sites = set(log[: built_at[0]]) if built_at else set(log)
        self.eval_first, self.eval_count = {}, {}
        for i, site in enumerate(log, 1):
            first.setdefault(site, i)
            count[site] = count.get(site, 0) + 1
            if built_at and i > built_at[0]:
                self.eval_first.setdefault(site, i)
                self.eval_count[site] = self.eval_count.get(site, 0) + 1
        return len(log), first, count


# ---------------------------------------------------------------- first use of a key
# Tables filled lazily per key (a zone name, a pattern, a text, a source) are raced on the FIRST use of the key: both threads ask for
# the same new key at once.  A harness that computes its reference values first, or cycles through a few inputs, warms every such table
# and never sees it.  Here every schedule draws keys this process has not used yet, and the solo outcomes are taken afterwards.
class FreshKeys:
    def __init__(self, rnd):
        import zoneinfo

        self.zones = sorted(z for z in zoneinfo.available_timezones() if "/" in z and not z.startswith(("Etc/", "posix/", "right/", "SystemV/")))
        rnd.shuffle(self.zones)
        self.n = rnd.randrange(10**6)

    def next(self, family):
        self.n += 1
        if family == "zone":
            return ("string", self.zones.pop()) if self.zones else None
        if family == "pattern":
            return ("string", "q%dz+" % self.n)
        if family == "duration":
            return ("string", "%dh%dm%ds" % (self.n % 9000, self.n % 59, self.n % 57))
        if family == "timestamp":
            return ("string", "%04d-%02d-%02dT%02d:%02d:%02dZ" % (1900 + self.n % 300, 1 + self.n % 12, 1 + self.n % 28, self.n % 24, self.n % 60, (self.n // 7) % 60))
        return ("string", str(10**9 + self.n))


FRESH_PROGRAMS = {
    "zone": ("timestamp('2021-06-15T12:30:00Z').getHours(k) * 100 + timestamp('2021-06-15T12:30:00Z').getMinutes(k) + timestamp('2021-01-15T12:30:00Z').getDayOfYear(k)", "k", []),
    "pattern": ("(k.matches(k) ? 1 : 0) + ('q12345zzz'.matches(k) ? 10 : 0) + ('zzz' + k).size()", "k", []),
    "duration": ("string(duration(k) + duration(k)) + '|' + string(duration(k) > duration('100h'))", "k", []),
    "timestamp": ("timestamp(k).getFullYear() * 10000 + timestamp(k).getDayOfYear() * 10 + timestamp(k).getDayOfWeek()", "k", []),
    "number": ("int(k) + int(k) % 1000 + size(k)", "k", []),
}


def first_use_schedules(ex, acc, ctx, rnd, seconds):
    fresh = FreshKeys(rnd)
    fams = sorted(FRESH_PROGRAMS)
    t0 = time.monotonic()
    j = 0
    profiles = {}
    while time.monotonic() - t0 < seconds and not ctx.expired():
        # one family per worker (two when there are fewer workers than families), the runner pairs in turn
        fam = fams[(ctx.worker + (j % 2) * 3) % len(fams)] if getattr(ctx, "nworkers", 8) < 2 * len(fams) else fams[ctx.worker % len(fams)]
        ra, rb = [("C", "C"), ("I", "I"), ("C", "I"), ("I", "C")][(j // 2 + ctx.worker) % 4]
        j += 1
        prog = FRESH_PROGRAMS[fam]
        pk = (fam, ra)
        if pk not in profiles:
            k0 = fresh.next(fam)
            if k0 is None:
                continue
            sink = []
            built_at = []
            ex.s.install()
            ex.s.site_log = []
            ex.s.site_code = ex.site_code
            try:
                ex.s.run([thread_work(ra, prog, [{"k": k0}], sink, on_built=lambda: built_at.append(len(ex.s.site_log)))], sched.never)
                log = ex.s.site_log
            finally:
                ex.s.site_log = None
                ex.s.site_code = None
            start = built_at[0] if built_at else 0
            first, count = {}, {}
            for i, site in enumerate(log, 1):
                if i <= start:
                    continue  # construction was explored by the ordinary single-preemption phase; the per-key work is in evaluate()
                first.setdefault(site, i)
                count[site] = count.get(site, 0) + 1
            # lines of the evaluation phase, those executed at most three times first (in program order), then the others
            # a table filled on the first use of a key runs its fill path once: the rarest lines first
            idxs = [site for site, i in sorted(first.items(), key=lambda kv: (count[kv[0]], kv[1])) if count[site] <= 3]
            rest = [site for site, i in sorted(first.items(), key=lambda kv: kv[1]) if count[site] > 3]
            profiles[pk] = [idxs + rest, 0]
            acc.extra["first_use_sites"] = acc.extra.get("first_use_sites", 0) + len(idxs) + len(rest)
        order, pos = profiles[pk]
        if pos >= len(order):
            continue
        profiles[pk][1] += 1
        key = fresh.next(fam)
        key2 = fresh.next(fam)
        if key is None or key2 is None:
            continue
        # both threads meet the same never-seen key first; thread A then goes on to a second new key
        site = order[pos]
        ok = ex.fast_schedule("first-use", [(ra, prog), (rb, prog)], site, 1, f"{fam} {ra}{rb} {site[0]}:{site[1]}", fresh_bindings=[[{"k": key}, {"k": key2}], [{"k": key}]], after_built=True)
        acc.hook("first-use-schedule")
        acc.extra["first_use_sites_preempted"] = acc.extra.get("first_use_sites_preempted", 0) + 1
        acc.cell("first-use", fam, ra + rb, "ok" if ok else "differ")


def stress(acc, rnd, seconds, nthreads=4):
    """Free-running threads with a tiny switch interval."""
    c = core.celpy()
    old = sys.getswitchinterval()
    t_end = time.monotonic() + seconds
    rounds = 0
    try:
        sys.setswitchinterval(1e-6)
        while time.monotonic() < t_end:
            rounds += 1
            mix = rnd.choice(["CCCC", "IIII", "CICI", "CCI", "CC", "II", "CI"])[:nthreads]
            specs = [(r, rnd.choice(PROGRAMS)) for r in mix]
            if rounds % 3 == 0:
                specs = [(r, specs[0][1]) for r in mix]
            reps = 40
            solos, sinks, threads = [], [], []
            for j, (runner, prog) in enumerate(specs):
                bl = bindings_for(prog, j) * reps
                solos.append(solo(runner, prog, bl))
                sink = Sink()
                sinks.append(sink)
                threads.append(threading.Thread(target=thread_work(runner, prog, bl, sink), daemon=True))
            for t in threads:
                t.start()
            for t in threads:
                t.join(timeout=120)
            n = sum(len(s) for s in sinks)
            acc.hook("stress-evaluation", n)
            acc.evaluations += n
            acc.nt(["stress", rounds, mix])
            acc.cell("stress", mix, "ok" if sinks == solos else "differ")
            if all(not t.is_alive() for t in threads):
                later_check(acc, "stress", mix, specs, sinks)
            for j, (got, want) in enumerate(zip(sinks, solos)):
                if got != want:
                    k = next((i for i, (g, w) in enumerate(zip(got, want)) if g != w), min(len(got), len(want)))
                    g = got[k] if k < len(got) else ["missing"]
                    w = want[k] if k < len(want) else ["missing"]
                    other = [r for i, (r, _) in enumerate(specs) if i != j]
                    acc.violation(
                        f"thread-runner={specs[j][0]} other-runners={''.join(sorted(set(other)))} phase={'construction' if g[:2] == ['X', 'construction'] else 'evaluate'} obs={diag.oclass(g) if g[0] in 'VEXP' else g[0]} solo={diag.oclass(w) if w[0] in 'VEXP' else w[0]}",
                        f"[stress {mix}] thread {j} ({specs[j][0]}) evaluating {specs[j][1][0]!r}: call {k} returned {core.jkey(g)[:80]} but {core.jkey(w)[:80]} when run alone",
                        {"kind": "stress", "specs": [[r, PROGRAMS.index(p)] for r, p in specs], "label": mix},
                    )
    finally:
        sys.setswitchinterval(old)


def run(ctx):
    acc = ctx.acc
    rnd = ctx.rnd
    # the worker raised the recursion limit for the harness's own needs; an application that uses the library has CPython's default,
    # and whatever the library does about the limit (process-wide state) must be observed from there
    sys.setrecursionlimit(1000)
    core.celpy()
    ex = Explorer(acc)
    t_sched = ctx.budget_s * 0.75
    # (a) single preemption.  A uniform stride over A's points samples loop bodies again and again and almost never lands in a
    # window that is executed once (environment construction, the fill path of a memo); so the preemption points are chosen by
    # SOURCE SITE: the first occurrence of every distinct line A executes, the rarely executed lines (<= 2 occurrences) first,
    # then a stride over the remaining points.  A evaluates two activations (the second one sees what B left behind), B one.
    # Slots: every program of the pool is thread A's program once with two compiled and once with two interpreted threads (the
    # shared state of one runner class is reached only when both threads use it); slots beyond two passes over the pool mix runners.
    npairs = 6 if not ctx.thorough else 24
    budget_each = t_sched * 0.38 / max(1, npairs)
    budget_double = t_sched * 0.22 / max(1, npairs)
    for pi in range(npairs):
        g = ctx.worker * npairs + pi
        idx = (g + ctx.seed) % len(PROGRAMS)
        pass_no = g // len(PROGRAMS)
        ra, rb = [("C", "C"), ("I", "I")][(idx + pass_no) % 2] if pass_no < 2 else [("C", "I"), ("I", "C")][g % 2]
        pa = PROGRAMS[idx]
        pb = pa
        lim = [2, 1] if not ctx.thorough else [3, 2]
        n_a, first, count = ex.profile(ra, pa, lim[0])
        if n_a == 0:
            acc.inconclusive.append("no scheduling points observed in a solo run")
            break
        # preemption is requested by SOURCE SITE and occurrence (robust against runs whose earlier line counts differ).
        # Sites first reached while A builds its environment and program need A's whole run; sites of the evaluation phase are
        # explored with A's program built beforehand (for A alone), which makes a schedule several times cheaper; thread B builds
        # its own environment and program inside the schedule every other time.
        order = sorted(first.items(), key=lambda kv: kv[1])
        cons = [(site, 1, False) for site, i in order if site in ex.construction_sites and site not in ex.eval_first]
        ev_rare = [(site, 1, True) for site, i in sorted(ex.eval_first.items(), key=lambda kv: kv[1]) if ex.eval_count[site] <= 2]
        ev_common = [(site, 1, True) for site, i in sorted(ex.eval_first.items(), key=lambda kv: kv[1]) if ex.eval_count[site] > 2]
        ev_later = [(site, ex.eval_count[site] // 2 + 1, True) for site, i in sorted(ex.eval_first.items(), key=lambda kv: kv[1]) if ex.eval_count[site] > 2]
        for lst in (cons, ev_rare, ev_common, ev_later):
            rnd.shuffle(lst)
        # thread B runs the same expression text (interference through a memo needs both threads in the same library code with
        # different inputs) or another one (interference through state that holds pieces of a program shows only then): the
        # construction phase is always explored against ANOTHER program, the evaluation phase against both in turn
        po = rnd.choice([p for p in PROGRAMS if p is not pa])
        try:
            pre_a, pre_b, pre_o = build_program(ra, pa), build_program(rb, pb), build_program(rb, po)
        except Exception:
            pre_a = pre_b = pre_o = None
        t0 = time.monotonic()
        done = {"rare": 0, "common": 0, "stride": 0}
        nsched = 0
        if pi % 3 != 0 and not ctx.thorough:
            cons = []  # quick tier: the construction phase is explored in every third slot only -- and first
        for group, targets in (("rare", cons), ("rare", ev_rare), ("common", ev_common), ("stride", ev_later)):
            for site, occ, in_eval in targets:
                if time.monotonic() - t0 > budget_each or ctx.expired():
                    break
                nsched += 1
                other = (not in_eval) or nsched % 3 == 0
                pbx, prex = (po, pre_o) if other else (pb, pre_b)
                pre = (pre_a if in_eval else None, prex if (in_eval and nsched % 2 == 0) else None)
                # while A constructs, B is of the OTHER runner class every other time (state shared between the classes: the parser)
                rbx = rb if (in_eval or nsched % 2) else ("I" if rb == "C" else "C")
                ex.fast_schedule("single-preemption", [(ra, pa), (rbx, pbx)], site, occ, f"{ra}{rbx} {site[0]}:{site[1]} occurrence {occ} ({group} site)", limits=lim, prebuilt=pre if rbx == rb else (pre[0], None))
                acc.hook("single-preemption-schedule")
                done[group] += 1
        rare, common = ev_rare + cons, ev_common
        # two preemptions inside ONE function of the evaluation phase: A paused before line s1, B run up to line s2 of the same
        # function and paused, A finishes, B finishes (a check-then-act sequence whose two halves are interleaved with the other
        # thread's halves is not exposed by letting the other thread run to completion)
        by_code = {}
        for site in ex.eval_first:
            cobj = ex.site_code.get(site)
            if cobj is not None and site[0] != "<string>":
                by_code.setdefault(id(cobj), []).append(site)
        # functions executed once per evaluation (entry and exit code, where "save, change, restore" sequences on process-wide
        # settings live) first, then the others; within a function every ordered pair of its lines
        ranked = sorted((max(ex.eval_count[x] for x in sites), rnd.random(), sites) for sites in by_code.values() if 1 <= len(sites) <= 14)
        pairs2 = []
        for _, _, sites in ranked:
            block = [(s1, s2) for s1 in sites for s2 in sites]
            rnd.shuffle(block)
            pairs2 += block
        # ... and a coarse grid ACROSS functions first: A paused somewhere in the middle of its evaluation, B run up to an early /
        # middle / late line of its own and paused, A finishes, B finishes.  A "save, change, restore" sequence around a whole
        # evaluation (entered in a wrapper, far from the code that depends on the changed setting) has its window open for almost
        # every such pair, while no pair of lines of one function reaches it.
        ev_order = [site for site, i in sorted(ex.eval_first.items(), key=lambda kv: kv[1]) if ex.site_code.get(site) is not None and site[0] != "<string>"]
        grid = []
        if len(ev_order) >= 8:
            pick = lambda frac: ev_order[min(len(ev_order) - 1, int(len(ev_order) * frac))]
            grid = [(pick(fa), pick(fb)) for fa in (0.5, 0.2, 0.8) for fb in (0.1, 0.4, 0.7, 0.95)]
        t2 = time.monotonic()
        for s1, s2 in grid:
            if time.monotonic() - t2 > budget_double * 0.5 or ctx.expired() or pre_a is None:
                break
            ex.double_schedule([(ra, pa), (rb, pa)], s1, s2, f"{ra}{rb} {s1[0]}:{s1[1]} / {s2[0]}:{s2[1]} (grid)", lim, (pre_a, pre_b if pb is pa else None))
            acc.hook("double-preemption-grid-schedule")
        for s1, s2 in pairs2:
            if time.monotonic() - t2 > budget_double or ctx.expired() or pre_a is None:
                break
            ex.double_schedule([(ra, pa), (rb, pa)], s1, s2, f"{ra}{rb} {s1[0]}:{s1[1]} / {s2[0]}:{s2[1]}", lim, (pre_a, pre_b if pb is pa else None))
        acc.extra["single_preemption_points_total"] = acc.extra.get("single_preemption_points_total", 0) + n_a
        acc.extra["distinct_sites_in_A"] = acc.extra.get("distinct_sites_in_A", 0) + len(first)
        acc.extra["rare_sites_in_A"] = acc.extra.get("rare_sites_in_A", 0) + len(rare)
        acc.extra["rare_sites_preempted"] = acc.extra.get("rare_sites_preempted", 0) + done["rare"]
        acc.extra["other_sites_preempted"] = acc.extra.get("other_sites_preempted", 0) + done["common"]
        acc.extra["later_occurrences_preempted"] = acc.extra.get("later_occurrences_preempted", 0) + done["stride"]
        if done["rare"] == len(rare) and done["common"] == len(common):
            acc.exhaustive.append(f"single preemption at the first occurrence of every distinct source line of one {ra}{rb} pair ({len(first)} sites)")
    # (a') first use of a key
    first_use_schedules(ex, acc, ctx, rnd, t_sched * 0.2)
    # (b) PCT-style and (c) random walks
    t1 = time.monotonic()
    j = 0
    while time.monotonic() - t1 < t_sched * 0.05 and not ctx.expired():
        j += 1
        nth = rnd.choice([2, 2, 3, 4])
        mix = rnd.choice(["CCCC", "IIII", "CICI", "ICCI"])[:nth]
        specs = [(r, rnd.choice(PROGRAMS)) for r in mix]
        if j % 4 == 3:
            specs = [(r, specs[0][1]) for r in mix]  # same expression text in every thread
        if j % 2 == 0:
            total = rnd.randint(2000, 12000)
            cps = sorted(rnd.randint(1, total) for _ in range(rnd.choice([2, 3])))
            ex.run_schedule("pct", specs, sched.pct(rnd, nth, cps), f"{mix} change-points {cps}")
        else:
            ex.run_schedule("random-walk", specs, sched.random_walk(rnd, 0.02, nth), f"{mix} seed {ctx.seed}/{ctx.worker}/{j}")
    ex.s.uninstall()
    acc.extra["distinct_switch_traces"] = len(ex.traces)
    # (2) free-running stress
    stress(acc, rnd, max(3.0, ctx.budget_s * 0.15))
    acc.sample({"threads": [["C", PROGRAMS[0][0]], ["C", PROGRAMS[2][0]]], "schedule": "thread 0 paused at line-point 120, thread 1 runs to completion, thread 0 resumes"})
    acc.sample({"stress": "4 threads x 160 evaluations, switch interval 1e-6"})


def replay(case):
    import random

    sys.setrecursionlimit(1000)
    core.celpy()
    acc = core.Acc()
    rnd = random.Random(0)
    if case["kind"] == "first-use":

        class C:
            worker, seed = 0, 0

            def expired(self):
                return False

        ex = Explorer(acc)
        first_use_schedules(ex, acc, C(), rnd, 20.0)
        ex.s.uninstall()
        return not acc.violations, "\n".join(v["what"] for v in acc.violations[:3]) or "no interference reproduced in the replay budget"
    specs = [(r, PROGRAMS[i]) for r, i in case["specs"]]
    if case["kind"] == "double-preemption":
        # the coarse cross-function grid and then every ordered pair of evaluation-phase lines (capped), for this pair of programs
        ex = Explorer(acc)
        (ra, pa), (rb, _) = specs[0], specs[1]
        lim = [2, 1]
        ex.profile(ra, pa, lim[0])
        ev_order = [site for site, i in sorted(ex.eval_first.items(), key=lambda kv: kv[1]) if ex.site_code.get(site) is not None and site[0] != "<string>"]
        pre_a, pre_b = build_program(ra, pa), build_program(rb, pa)
        pick = lambda frac: ev_order[min(len(ev_order) - 1, int(len(ev_order) * frac))]
        pairs = [(pick(fa), pick(fb)) for fa in (0.5, 0.2, 0.8) for fb in (0.1, 0.4, 0.7, 0.95)] if len(ev_order) >= 8 else []
        pairs += [(s1, s2) for s1 in ev_order[:: max(1, len(ev_order) // 20)] for s2 in ev_order[:: max(1, len(ev_order) // 20)]]
        for s1, s2 in pairs[:420]:
            ex.double_schedule([(ra, pa), (rb, pa)], s1, s2, f"replay {s1[0]}:{s1[1]} / {s2[0]}:{s2[1]}", lim, (pre_a, pre_b))
            if acc.violations:
                break
        ex.s.uninstall()
        return not acc.violations, "\n".join(v["what"] for v in acc.violations[:3]) or "no interference reproduced in the replay budget"
    if case["kind"] == "stress":
        stress(acc, rnd, 5.0, nthreads=len(specs))
    else:
        ex = Explorer(acc)
        for k in range(200):
            ex.run_schedule("random-walk", specs, sched.random_walk(rnd, 0.02, len(specs)), f"replay {k}")
            if acc.violations:
                break
        n_a = ex.count_points(*specs[0])
        for i in range(1, n_a + 1, max(1, n_a // 150)):
            ex.run_schedule("single-preemption", specs[:2], sched.single_preemption(i), f"replay point {i}")
            if acc.violations:
                break
        ex.s.uninstall()
    return not acc.violations, "\n".join(v["what"] for v in acc.violations[:3]) or "no interference reproduced in the replay budget"
