"""C16  Concurrent evaluations in separate environments do not interfere."""

from __future__ import annotations

import sys
import threading
import time

from .. import core, diag, mv as MV, sched

ID = "C16"
READY = True
LEVEL = "exploration"
WORKERS = {"quick": 8, "thorough": 16}
BUDGET = {"quick": 56, "thorough": 600}
MIN_NONTRIVIAL = {"quick": 150, "thorough": 3000}
REQUIRED_HOOKS = ["first-use-schedule", "schedule", "scheduling-point", "switch-inside-library-code", "stress-evaluation", "single-preemption-schedule"]
RULE = (
    "2-4 threads each create their own Environment and program (runner mixes: all compiled, all interpreted, mixed; different expression texts, or the same text "
    "in every thread) and evaluate their own bindings; every "
    "per-thread outcome is compared with the outcome of the same call run alone (computed single-threaded beforehand). Exploration: (1) a deterministic "
    "cooperative scheduler driven by sys.monitoring LINE events on src/celpy/*.py and the transpiler's '<string>' code -- (a) single preemption: thread A is paused at "
    "line-point i of its run (construction and evaluation phases), thread B runs to completion, A resumes; the points i are chosen by source site: the first "
    "occurrence of every distinct line A executes, rarely executed lines (<= 2 occurrences: construction code, memo fill paths) first, then a stride over the rest; (b) PCT-style "
    "schedules with 2-3 change points; (c) random walks (p = 0.02 per point); same seed => same switch trace; (2) free-running stress with "
    "sys.setswitchinterval(1e-6). distinct_nontrivial = distinct switch traces with at least one switch inside library code, plus stress rounds."
)
ASSUMPTIONS = [
    "the documented threading contract: one Environment and program per thread",
    "preemption is explored at Python-line granularity inside the library; a 30 s wait watchdog per schedule makes the schedule inconclusive, never a violation",
]

PROGRAMS = [
    ("[1, 2, 3].map(x, x * k).filter(y, y > k)[0] + k", "k", [1, 2, 3, 5]),
    ("k > 2 ? 'big' + string(k) : 'small' + string(k)", "k", [1, 2, 3, 4]),
    ("(k == 0 || 10 / k > 2) && [k, k + 1].all(e, e > 0)", "k", [0, 1, 2, 5]),
    ("{'a': k, 'b': [k, k]}.b.exists(e, e == k) ? k * 1000 : -1", "k", [7, 8, 9]),
    ("[k, 2, 0].map(z, 100 / z)", "k", [1, 4, 0]),
    ("size([k, k, k].filter(q, q % 2 == 0)) + k", "k", [1, 2, 3, 4]),
    ("has({'x': k}.x) && !has({'x': k}.y) ? k + 1 : k - 1", "k", [1, 2]),
    ("k.startsWith('a') || k.endsWith('z') ? k + '!' : k", "k", ["abc", "xyz", "mmm"]),
    # conversions, text parsing, regular expressions, containers: other parts of the library that might keep state between calls
    # (the same input converted twice in a row, then another one, then the first again: hit and miss paths of any memo)
    ("string(duration(k) + duration(k)) + '|' + string(duration('1s') + duration(k)) + '|' + string(duration(k) > duration('1h'))", "k", ["90m", "24h", "10s", "1h1s"]),
    ("string(timestamp(k).getFullYear() * 100 + timestamp(k).getMonth()) + '|' + string(timestamp(k) - timestamp('2000-01-01T00:00:00Z') > duration('0s')) + '|' + string(timestamp(k))", "k", ["2001-02-03T04:05:06Z", "1999-12-31T23:59:59+01:00", "2038-01-19T03:14:08Z"]),
    ("int(k) * 2 + int(k) + size(k) + int(double(k)) + int('7') + int(k)", "k", ["12", "345", "-6"]),
    ("(k.matches('^a+b') ? 1 : 0) + (k.matches('^a+b') ? 10 : 0) + (k.matches('b$') ? 100 : 0) + (k.matches('^a+b') ? 1000 : 0) + k.size()", "k", ["aab", "ab", "ba", "aaab"]),
    ("{'x': k, 'y': [k]}.y[0] + {'x': k}.x + (k in [1, 2, 3] ? 100 : 200)", "k", [1, 2, 3, 5]),
    ("string(k) + '/' + string(double(k)) + '/' + string(uint(k)) + '/' + string(type(k) == int)", "k", [1, 2, 3]),
    ("bytes(k).size() * 10 + size(k + k)", "k", ["\u00e9", "ab", "", "\U0001f431"]),
    # evaluations that FAIL, each thread with its own key / name / index in the message
    ("{'washer': 1, 'rivet': 2}[k] + {'a': 1}[k]", "k", ["washer", "rivet", "bolt", "nut"]),
    ("[1, 2, 3][k] + 10 / (k - 2)", "k", [0, 1, 2, 5]),
    ("k == 1 ? undeclared_one : (k == 2 ? undeclared_two + 1 : {'m': 1}.nokey)", "k", [1, 2, 3]),
    ("(k > 1 && unknown_name > 0) || {'x': k}.y > 0", "k", [1, 2, 3]),
]


def bindings_for(prog, j, limit=None):
    src, var, vals = prog
    out = []
    vals = list(vals[j % len(vals) :]) + list(vals[: j % len(vals)])  # threads walk the values in different orders
    for v in vals[:limit]:
        mvv = ("int", v * (j + 1)) if isinstance(v, int) else ("string", v)
        out.append({var: mvv})
    return out


def thread_work(runner, prog, bind_list, sink):
    """What one thread does: its own Environment, program and evaluations."""
    c = core.celpy()

    def body():
        try:
            env = c.Environment(runner_class=core.runner_class(runner))
            p = env.program(env.compile(prog[0]))
        except Exception as ex:
            sink.append(["X", "construction", type(ex).__name__])
            return
        for b in bind_list:
            try:
                v = p.evaluate(MV.cel_env(b))
                sink.append(["V", core.canon(v)])
            except c.CELEvalError as ex:
                # the error a thread gets must be the error it gets alone: class, arguments and text (addresses masked)
                sink.append(["E", error_text(ex)])
            except Exception as ex:
                sink.append(["X", "evaluate", type(ex).__name__, core._msg(ex)[:60]])

    return body


def error_text(ex):
    import re

    try:
        t = f"{ex}|{ex.args!r}"
    except Exception:
        t = "<unprintable>"
    return re.sub(r"0x[0-9a-fA-F]+", "0x?", t)[:400]


def solo(runner, prog, bind_list):
    sink = []
    thread_work(runner, prog, bind_list, sink)()
    return sink


def interesting(filename: str) -> bool:
    return filename == "<string>" or "/src/celpy/" in filename


class Explorer:
    def __init__(self, acc):
        self.acc = acc
        self.s = sched.Scheduler(interesting)
        self.traces = set()
        self.solo_cache = {}

    def run_schedule(self, kind, specs, policy, label, limits=None, fresh_bindings=None):
        """specs: list of (runner, program); returns True when every thread matched its solo outcome.
        fresh_bindings: explicit binding lists (one per thread) holding values this process has never seen: the solo outcomes are
        then computed AFTER the concurrent run, so that nothing in the process is warmed up for them beforehand."""
        acc = self.acc
        sinks = [[] for _ in specs]
        bodies = []
        solos = []
        bls = []
        for j, (runner, prog) in enumerate(specs):
            bl = fresh_bindings[j] if fresh_bindings else bindings_for(prog, j, limits[j] if limits else None)
            bls.append(bl)
            if not fresh_bindings:
                key = (runner, prog[0], j, limits[j] if limits else None)
                if key not in self.solo_cache:
                    self.solo_cache[key] = solo(runner, prog, bl)  # the same calls made alone, single-threaded
                solos.append(self.solo_cache[key])
            bodies.append(thread_work(runner, prog, bl, sinks[j]))
        self.s.install()
        ok_run = self.s.run(bodies, policy)
        if fresh_bindings:
            self.s.policy = None
            solos = [solo(runner, prog, bl) for (runner, prog), bl in zip(specs, bls)]
        acc.hook("schedule")
        acc.hook("scheduling-point", self.s.points)
        inside = [sw for sw in self.s.switches if sw[2] > 0]
        if inside:
            acc.hook("switch-inside-library-code", len(inside))
        acc.evaluations += sum(len(x) for x in sinks)
        key = self.s.trace_key()
        mix = "".join(r for r, _ in specs)
        if inside and key not in self.traces:
            self.traces.add(key)
            acc.nt([kind, mix, [p[0] for _, p in specs], key])
        acc.cell(kind, mix, "switches%d" % min(len(inside), 4), "ok" if ok_run else "watchdog")
        acc.extra["preemption_sites"] = sorted(set(acc.extra.get("preemption_sites", [])) | {f"{f}:{l}" for f, l in list(self.s.sites)[:40]})[:200]
        if not ok_run:
            acc.inconclusive.append(f"scheduler watchdog fired in a {kind} schedule ({label})")
            return True
        good = True
        for j, (got, want) in enumerate(zip(sinks, solos)):
            if got != want:
                good = False
                k = next((i for i, (g, w) in enumerate(zip(got, want)) if g != w), min(len(got), len(want)))
                g = got[k] if k < len(got) else ["missing"]
                w = want[k] if k < len(want) else ["missing"]
                other = [r for i, (r, _) in enumerate(specs) if i != j]
                acc.violation(
                    f"thread-runner={specs[j][0]} other-runners={''.join(sorted(set(other)))} phase={'construction' if g[:2] == ['X', 'construction'] else 'evaluate'} obs={diag.oclass(g) if g[0] in 'VEXP' else g[0]} solo={diag.oclass(w) if w[0] in 'VEXP' else w[0]}",
                    f"[{kind} {label}] thread {j} ({specs[j][0]}) evaluating {specs[j][1][0]!r}: call {k} returned {core.jkey(g)[:80]} but {core.jkey(w)[:80]} when run alone; switches {key[:120]}",
                    {"kind": kind, "specs": [[r, PROGRAMS.index(p) if p in PROGRAMS else -1] for r, p in specs], "label": label},
                )
        return good

    def count_points(self, runner, prog, limit=None):
        """Number of scheduling points of thread A's solo run."""
        sink = []
        self.s.install()
        self.s.run([thread_work(runner, prog, bindings_for(prog, 0, limit), sink)], sched.never)
        return self.s.points_by_thread.get(0, 0)

    def profile(self, runner, prog, limit=None):
        """Solo run of thread A recording the source site of every scheduling point.
        Returns (number of points, {site: index of its first occurrence}, {site: occurrences})."""
        sink = []
        self.s.install()
        self.s.site_log = []
        try:
            self.s.run([thread_work(runner, prog, bindings_for(prog, 0, limit), sink)], sched.never)
            log = self.s.site_log
        finally:
            self.s.site_log = None
        first, count = {}, {}
        for i, site in enumerate(log, 1):
            first.setdefault(site, i)
            count[site] = count.get(site, 0) + 1
        return len(log), first, count


# ---------------------------------------------------------------- first use of a key
# Tables filled lazily per key (a zone name, a pattern, a text, a source) are raced on the FIRST use of the key: both threads ask for
# the same new key at once.  A harness that computes its reference values first, or cycles through a few inputs, warms every such table
# and never sees it.  Here every schedule draws keys this process has not used yet, and the solo outcomes are taken afterwards.
class FreshKeys:
    def __init__(self, rnd):
        import zoneinfo

        self.zones = sorted(z for z in zoneinfo.available_timezones() if "/" in z and not z.startswith(("Etc/", "posix/", "right/", "SystemV/")))
        rnd.shuffle(self.zones)
        self.n = rnd.randrange(10**6)

    def next(self, family):
        self.n += 1
        if family == "zone":
            return ("string", self.zones.pop()) if self.zones else None
        if family == "pattern":
            return ("string", "q%dz+" % self.n)
        if family == "duration":
            return ("string", "%dh%dm%ds" % (self.n % 9000, self.n % 59, self.n % 57))
        if family == "timestamp":
            return ("string", "%04d-%02d-%02dT%02d:%02d:%02dZ" % (1900 + self.n % 300, 1 + self.n % 12, 1 + self.n % 28, self.n % 24, self.n % 60, (self.n // 7) % 60))
        return ("string", str(10**9 + self.n))


FRESH_PROGRAMS = {
    "zone": ("timestamp('2021-06-15T12:30:00Z').getHours(k) * 100 + timestamp('2021-06-15T12:30:00Z').getMinutes(k) + timestamp('2021-01-15T12:30:00Z').getDayOfYear(k)", "k", []),
    "pattern": ("(k.matches(k) ? 1 : 0) + ('q12345zzz'.matches(k) ? 10 : 0) + ('zzz' + k).size()", "k", []),
    "duration": ("string(duration(k) + duration(k)) + '|' + string(duration(k) > duration('100h'))", "k", []),
    "timestamp": ("timestamp(k).getFullYear() * 10000 + timestamp(k).getDayOfYear() * 10 + timestamp(k).getDayOfWeek()", "k", []),
    "number": ("int(k) + int(k) % 1000 + size(k)", "k", []),
}


def first_use_schedules(ex, acc, ctx, rnd, seconds):
    fresh = FreshKeys(rnd)
    fams = sorted(FRESH_PROGRAMS)
    t0 = time.monotonic()
    j = 0
    profiles = {}
    while time.monotonic() - t0 < seconds and not ctx.expired():
        fam = fams[(j + ctx.worker) % len(fams)]
        ra, rb = [("C", "C"), ("I", "I"), ("C", "I"), ("I", "C")][(j // len(fams) + ctx.worker) % 4]
        j += 1
        prog = FRESH_PROGRAMS[fam]
        pk = (fam, ra)
        if pk not in profiles:
            k0 = fresh.next(fam)
            if k0 is None:
                continue
            sink = []
            ex.s.install()
            ex.s.site_log = []
            try:
                ex.s.run([thread_work(ra, prog, [{"k": k0}], sink)], sched.never)
                log = ex.s.site_log
            finally:
                ex.s.site_log = None
            first, count = {}, {}
            for i, site in enumerate(log, 1):
                first.setdefault(site, i)
                count[site] = count.get(site, 0) + 1
            # sites inside the evaluation phase that are executed once or twice, latest first (the per-key work sits at the end)
            idxs = sorted((i for site, i in first.items() if count[site] <= 2), reverse=True)
            rest = sorted((i for site, i in first.items() if count[site] > 2), reverse=True)
            profiles[pk] = [idxs + rest, 0]
        order, pos = profiles[pk]
        if pos >= len(order):
            continue
        profiles[pk][1] += 1
        key = fresh.next(fam)
        key2 = fresh.next(fam)
        if key is None or key2 is None:
            continue
        # both threads meet the same never-seen key first; thread A then goes on to a second new key
        ok = ex.run_schedule("first-use", [(ra, prog), (rb, prog)], sched.single_preemption(order[pos]), f"{fam} {ra}{rb} point {order[pos]}", fresh_bindings=[[{"k": key}, {"k": key2}], [{"k": key}]])
        acc.hook("first-use-schedule")
        acc.cell("first-use", fam, ra + rb, "ok" if ok else "differ")


def stress(acc, rnd, seconds, nthreads=4):
    """Free-running threads with a tiny switch interval."""
    c = core.celpy()
    old = sys.getswitchinterval()
    t_end = time.monotonic() + seconds
    rounds = 0
    try:
        sys.setswitchinterval(1e-6)
        while time.monotonic() < t_end:
            rounds += 1
            mix = rnd.choice(["CCCC", "IIII", "CICI", "CCI", "CC", "II", "CI"])[:nthreads]
            specs = [(r, rnd.choice(PROGRAMS)) for r in mix]
            if rounds % 3 == 0:
                specs = [(r, specs[0][1]) for r in mix]
            reps = 40
            solos, sinks, threads = [], [], []
            for j, (runner, prog) in enumerate(specs):
                bl = bindings_for(prog, j) * reps
                solos.append(solo(runner, prog, bl))
                sink = []
                sinks.append(sink)
                threads.append(threading.Thread(target=thread_work(runner, prog, bl, sink), daemon=True))
            for t in threads:
                t.start()
            for t in threads:
                t.join(timeout=120)
            n = sum(len(s) for s in sinks)
            acc.hook("stress-evaluation", n)
            acc.evaluations += n
            acc.nt(["stress", rounds, mix])
            acc.cell("stress", mix, "ok" if sinks == solos else "differ")
            for j, (got, want) in enumerate(zip(sinks, solos)):
                if got != want:
                    k = next((i for i, (g, w) in enumerate(zip(got, want)) if g != w), min(len(got), len(want)))
                    g = got[k] if k < len(got) else ["missing"]
                    w = want[k] if k < len(want) else ["missing"]
                    other = [r for i, (r, _) in enumerate(specs) if i != j]
                    acc.violation(
                        f"thread-runner={specs[j][0]} other-runners={''.join(sorted(set(other)))} phase={'construction' if g[:2] == ['X', 'construction'] else 'evaluate'} obs={diag.oclass(g) if g[0] in 'VEXP' else g[0]} solo={diag.oclass(w) if w[0] in 'VEXP' else w[0]}",
                        f"[stress {mix}] thread {j} ({specs[j][0]}) evaluating {specs[j][1][0]!r}: call {k} returned {core.jkey(g)[:80]} but {core.jkey(w)[:80]} when run alone",
                        {"kind": "stress", "specs": [[r, PROGRAMS.index(p)] for r, p in specs], "label": mix},
                    )
    finally:
        sys.setswitchinterval(old)


def run(ctx):
    acc = ctx.acc
    rnd = ctx.rnd
    core.celpy()
    ex = Explorer(acc)
    t_sched = ctx.budget_s * 0.75
    # (a) single preemption.  A uniform stride over A's points samples loop bodies again and again and almost never lands in a
    # window that is executed once (environment construction, the fill path of a memo); so the preemption points are chosen by
    # SOURCE SITE: the first occurrence of every distinct line A executes, the rarely executed lines (<= 2 occurrences) first,
    # then a stride over the remaining points.  A evaluates two activations (the second one sees what B left behind), B one.
    pairs = [("C", "C"), ("C", "I"), ("I", "C"), ("I", "I")]
    npairs = 3 if not ctx.thorough else 20
    budget_each = t_sched * 0.5 / max(1, npairs)
    for pi in range(npairs):
        ra, rb = pairs[(pi + ctx.worker) % len(pairs)]
        # every program is thread A's program in some worker; two pairs in three run the SAME expression text in both threads
        # (own environments, bindings walked in another order): interference through a memo needs both threads in the same library code
        pa = PROGRAMS[(ctx.worker * npairs + pi + ctx.seed) % len(PROGRAMS)]
        pb = pa if pi % 3 != 1 else rnd.choice(PROGRAMS)
        lim = [2, 1] if not ctx.thorough else [3, 2]
        n_a, first, count = ex.profile(ra, pa, lim[0])
        if n_a == 0:
            acc.inconclusive.append("no scheduling points observed in a solo run")
            break
        rare = sorted(i for site, i in first.items() if count[site] <= 2)
        common = sorted(i for site, i in first.items() if count[site] > 2)
        rnd.shuffle(rare)
        rnd.shuffle(common)
        want = 40 if not ctx.thorough else 300
        stride = max(1, n_a // want)
        extra = [i for i in range(1 + rnd.randrange(stride), n_a + 1, stride) if i not in first.values()]
        t0 = time.monotonic()
        done = {"rare": 0, "common": 0, "stride": 0}
        complete = True
        for group, idxs in (("rare", rare), ("common", common), ("stride", extra)):
            for i in idxs:
                if time.monotonic() - t0 > budget_each or ctx.expired():
                    complete = False
                    break
                ex.run_schedule("single-preemption", [(ra, pa), (rb, pb)], sched.single_preemption(i), f"{ra}{rb} point {i}/{n_a} ({group} site)", limits=lim)
                acc.hook("single-preemption-schedule")
                done[group] += 1
        acc.extra["single_preemption_points_total"] = acc.extra.get("single_preemption_points_total", 0) + n_a
        acc.extra["distinct_sites_in_A"] = acc.extra.get("distinct_sites_in_A", 0) + len(first)
        acc.extra["rare_sites_in_A"] = acc.extra.get("rare_sites_in_A", 0) + len(rare)
        acc.extra["rare_sites_preempted"] = acc.extra.get("rare_sites_preempted", 0) + done["rare"]
        acc.extra["other_sites_preempted"] = acc.extra.get("other_sites_preempted", 0) + done["common"]
        acc.extra["stride_points_preempted"] = acc.extra.get("stride_points_preempted", 0) + done["stride"]
        if done["rare"] == len(rare) and done["common"] == len(common):
            acc.exhaustive.append(f"single preemption at the first occurrence of every distinct source line of one {ra}{rb} pair ({len(first)} sites)")
    # (a') first use of a key
    first_use_schedules(ex, acc, ctx, rnd, t_sched * 0.14)
    # (b) PCT-style and (c) random walks
    t1 = time.monotonic()
    j = 0
    while time.monotonic() - t1 < t_sched * 0.26 and not ctx.expired():
        j += 1
        nth = rnd.choice([2, 2, 3, 4])
        mix = rnd.choice(["CCCC", "IIII", "CICI", "ICCI"])[:nth]
        specs = [(r, rnd.choice(PROGRAMS)) for r in mix]
        if j % 4 == 3:
            specs = [(r, specs[0][1]) for r in mix]  # same expression text in every thread
        if j % 2 == 0:
            total = rnd.randint(2000, 12000)
            cps = sorted(rnd.randint(1, total) for _ in range(rnd.choice([2, 3])))
            ex.run_schedule("pct", specs, sched.pct(rnd, nth, cps), f"{mix} change-points {cps}")
        else:
            ex.run_schedule("random-walk", specs, sched.random_walk(rnd, 0.02, nth), f"{mix} seed {ctx.seed}/{ctx.worker}/{j}")
    ex.s.uninstall()
    acc.extra["distinct_switch_traces"] = len(ex.traces)
    # (2) free-running stress
    stress(acc, rnd, max(3.0, ctx.budget_s * 0.15))
    acc.sample({"threads": [["C", PROGRAMS[0][0]], ["C", PROGRAMS[2][0]]], "schedule": "thread 0 paused at line-point 120, thread 1 runs to completion, thread 0 resumes"})
    acc.sample({"stress": "4 threads x 160 evaluations, switch interval 1e-6"})


def replay(case):
    import random

    core.celpy()
    acc = core.Acc()
    rnd = random.Random(0)
    if case["kind"] == "first-use":

        class C:
            worker, seed = 0, 0

            def expired(self):
                return False

        ex = Explorer(acc)
        first_use_schedules(ex, acc, C(), rnd, 20.0)
        ex.s.uninstall()
        return not acc.violations, "\n".join(v["what"] for v in acc.violations[:3]) or "no interference reproduced in the replay budget"
    specs = [(r, PROGRAMS[i]) for r, i in case["specs"]]
    if case["kind"] == "stress":
        stress(acc, rnd, 5.0, nthreads=len(specs))
    else:
        ex = Explorer(acc)
        for k in range(200):
            ex.run_schedule("random-walk", specs, sched.random_walk(rnd, 0.02, len(specs)), f"replay {k}")
            if acc.violations:
                break
        n_a = ex.count_points(*specs[0])
        for i in range(1, n_a + 1, max(1, n_a // 150)):
            ex.run_schedule("single-preemption", specs[:2], sched.single_preemption(i), f"replay point {i}")
            if acc.violations:
                break
        ex.s.uninstall()
    return not acc.violations, "\n".join(v["what"] for v in acc.violations[:3]) or "no interference reproduced in the replay budget"
