"""C07  Literals denote the values they spell (encoder-as-specification round trip)."""

from __future__ import annotations

import math

from .. import core, diag, mv as MV

ID = "C07"
READY = True
LEVEL = "exploration"
WORKERS = {"quick": 8, "thorough": 16}
BUDGET = {"quick": 150, "thorough": 420}
MIN_NONTRIVIAL = {"quick": 4000, "thorough": 100000}
REQUIRED_HOOKS = ["evaluate:I", "evaluate:C", "string", "bytes", "int", "uint", "double", "embedded-literal"]
RULE = (
    "The harness encodes a known Python value as a CEL literal -- strings/bytes in each quoting style (\"..\", '..', triple, raw) choosing per character a random "
    "admissible spelling among {itself, named escape, \\xHH, \\uHHHH, \\UHHHHHHHH, \\ooo}; ints/uints in decimal (sign, leading zeros) and hex; doubles as "
    "repr, exponent, '.5', '5.' forms -- evaluates it under both runners and compares with the original value; out-of-range integer literals must be evaluation "
    "errors. distinct_nontrivial = distinct literals containing an escape, a delimiter character, a non-ASCII character, or a boundary number."
)
ASSUMPTIONS = [
    "only spellings the statement lists are generated (no \\u in bytes, octal <= \\377, no lone surrogates)",
    "raw forms are used only when the content has no backslash before a quote, does not end in a backslash and contains no delimiter",
    "the result class is C13's business; values are compared by content",
]

NAMED = {"\a": "\\a", "\b": "\\b", "\f": "\\f", "\n": "\\n", "\r": "\\r", "\t": "\\t", "\v": "\\v", "\\": "\\\\", '"': '\\"', "'": "\\'"}
STYLES = ['"', "'", '"""', "'''"]


def cclass(ch: str) -> str:
    o = ord(ch)
    if ch in "\"'":
        return "quote"
    if ch == "\\":
        return "backslash"
    if ch == "\n":
        return "newline"
    if ch == "\r":
        return "cr"
    if o < 0x20 or o == 0x7F:
        return "control"
    if o < 0x80:
        return "ascii"
    if o < 0x100:
        return "latin1"
    if o < 0x10000:
        return "bmp"
    return "astral"


def spellings_for_char(ch: str, style: str, prev_raw_quote: bool, last: bool, nxt: str):
    """Admissible spellings of one code point inside a cooked string literal of this style."""
    o = ord(ch)
    out = []
    q = style[0]
    triple = len(style) == 3
    raw_ok = True
    if ch == "\\":
        raw_ok = False
    elif ch == "\n":
        raw_ok = triple
    elif ch == "\r":
        raw_ok = triple  # cel.lark lists \r\n, \r and \n as content of a triple-quoted literal: a raw CR is a spelled code point
    elif ch == q:
        raw_ok = triple and not prev_raw_quote and not last and nxt != q
    if raw_ok:
        out.append("itself")
    if ch in NAMED:
        out.append("named")
    if o <= 0xFF:
        out.append("x")
        out.append("octal")
    if o <= 0xFFFF:
        out.append("u")
    out.append("U")
    return out


def spell_char(ch: str, how: str, rnd) -> str:
    o = ord(ch)
    if how == "itself":
        return ch
    if how == "named":
        return NAMED[ch]
    if how == "x":
        return ("\\x%02x" if rnd.random() < 0.5 else "\\x%02X") % o
    if how == "octal":
        return "\\%03o" % o
    if how == "u":
        return ("\\u%04x" if rnd.random() < 0.5 else "\\u%04X") % o
    if how == "U":
        return "\\U%08x" % o
    raise ValueError(how)


def encode_string(s: str, style: str, rnd, force=None):
    """-> (literal text, list of (char class, spelling))"""
    parts, used = [], []
    prev_raw_quote = False
    for i, ch in enumerate(s):
        opts = spellings_for_char(ch, style, prev_raw_quote, i == len(s) - 1, s[i + 1] if i + 1 < len(s) else "")
        if force and force in opts:
            how = force
        else:
            how = rnd.choice(opts) if rnd.random() < 0.6 or "itself" not in opts else "itself"
        # an octal / hex / unicode escape followed by a raw hex digit must not absorb it: all our escapes are fixed width -> safe
        parts.append(spell_char(ch, how, rnd))
        used.append((cclass(ch), how))
        prev_raw_quote = how == "itself" and ch == style[0]
    return style + "".join(parts) + style, used


def raw_ok(s: str, style: str) -> bool:
    q = style[0]
    if len(style) == 1:
        if "\n" in s or "\r" in s or q in s:
            return False
    else:
        if style in s or s.endswith(q):
            return False
    if s.endswith("\\"):
        return False
    for i, ch in enumerate(s[:-1]):
        if ch == "\\" and s[i + 1] in "\"'\\":
            return False
    return True


def encode_bytes(b: bytes, style: str, rnd, force=None):
    """Octets as \\xHH / \\ooo / named escapes, or the unescaped characters of a valid UTF-8 run."""
    parts, used = [], []
    i = 0
    q = style[0]
    triple = len(style) == 3
    prev_raw_quote = False
    while i < len(b):
        # try a UTF-8 run of one character
        ch = None
        for ln in (1, 2, 3, 4):
            try:
                cand = b[i : i + ln].decode("utf-8")
                if len(cand) == 1 and len(b[i : i + ln]) == ln:
                    ch = cand
                    width = ln
                    break
            except UnicodeDecodeError:
                continue
        opts = ["x", "octal"]
        if ch is not None:
            ok_raw = True
            if ch == "\\":
                ok_raw = False
            elif ch in "\n\r":
                ok_raw = triple
            elif ch == q:
                nxt = chr(b[i + 1]) if i + 1 < len(b) else ""
                ok_raw = triple and not prev_raw_quote and i + width < len(b) and nxt != q
            if ok_raw:
                opts.append("itself")
            if width == 1 and ch in NAMED:
                opts.append("named")
        how = force if force in opts else rnd.choice(opts)
        if how == "itself":
            parts.append(ch)
            used.append((cclass(ch), "itself"))
            prev_raw_quote = ch == q
            i += width
            continue
        o = b[i]
        if how == "named":
            parts.append(NAMED[chr(o)])
        elif how == "x":
            parts.append("\\x%02x" % o)
        else:
            parts.append("\\%03o" % o)
        used.append(("octet-high" if o >= 0x80 else cclass(chr(o)), how))
        prev_raw_quote = False
        i += 1
    return rnd.choice("bB") + style + "".join(parts) + style, used


def evaluate(acc, src):
    outs = {}
    for r in "IC":
        outs[r] = core.api_eval(r, src, {})
        acc.hook("evaluate:" + r)
        acc.evaluations += 1
    return outs


# A literal denotes the same value wherever it stands: at the top level, in a branch of ?:, as an operand of || / &&, in a macro
# body, a list or map literal, a function argument (the transpiler pastes literal text into templates of the enclosing construct).
CONTEXTS = [
    ("cond", "true ? @@L@@ : @@L@@"), ("cond-else", "1 > 2 ? @@L@@ : @@L@@"), ("or-operand", "((@@L@@) == (@@L@@) || false) ? @@L@@ : @@L@@"), ("and-operand", "(true && (@@L@@) == (@@L@@)) ? @@L@@ : @@L@@"),
    ("macro-body", "[1].map(i, @@L@@)[0]"), ("nested-macro-body", "[[1]].map(i, i.map(j, @@L@@))[0][0]"), ("list", "[@@L@@, @@L@@][1]"), ("map-value", "{'k': @@L@@}.k"),
    ("filter", "[@@L@@].filter(x, x == @@L@@)[0]"), ("exists-then", "[1].exists(i, (@@L@@) == (@@L@@)) ? @@L@@ : @@L@@"), ("argument", "[@@L@@].map(v, v)[0]"), ("has-then", "has({'a': 1}.b) ? @@L@@ : @@L@@"),
]
_ctx_counter = [0]


def judge(acc, kind, src, exp_mv, outs, describe):
    """exp_mv: model value or 'E'. describe(runner, out) -> slug when violated."""
    good = _judge(acc, kind, src, exp_mv, outs, describe)
    _ctx_counter[0] += 1
    if good and exp_mv != "E" and _ctx_counter[0] % 3 == 0 and len(src) < 400:
        name, tmpl = CONTEXTS[(_ctx_counter[0] // 3) % len(CONTEXTS)]
        src2 = tmpl.replace("@@L@@", src)
        outs2 = evaluate(acc, src2)
        acc.hook("embedded-literal")
        for r in list(outs2):
            if r == "C" and name == "has-then":
                del outs2[r]  # compiled has() yields a native bool (listed C03/C13 finding): ?: on it is an error for another reason
        good = _judge(acc, kind + "@" + name, src2, exp_mv, outs2, lambda r, out: f"{r} {kind.split(':')[0]} embedded-in-{name} obs={diag.oclass(out)}") and good
    return good


def _judge(acc, kind, src, exp_mv, outs, describe):
    good = True
    for r, out in outs.items():
        if exp_mv == "E":
            ok = out[0] == "E"
        else:
            ok = out[0] == "V" and MV.same_value_ignoring_class(out[1], MV.canon_of(exp_mv))
        acc.cell(kind, r, "ok" if ok else diag.oclass(out).split("@")[0])
        if not ok:
            good = False
            acc.violation(
                describe(r, out),
                f"{'interpreted' if r == 'I' else 'compiled'}: literal {src[:100]!r} gave {short(out)}, expected {short_exp(exp_mv)}",
                {"src": src, "expected": "E" if exp_mv == "E" else MV.enc(exp_mv), "runner": r},
            )
    return good


def short(out):
    s = core.jkey(out)
    return s[:140]


def short_exp(e):
    return "an evaluation error" if e == "E" else repr(e)[:100]


def single_char_probe(kind, style, raw, r, value):
    """Find one (char class, spelling) that fails alone in this style, for the slug."""
    import random

    rnd = random.Random(0)
    seen = set()
    items = list(value) if kind == "string" else [bytes([o]) for o in value]
    for it in items:
        for how in ("itself", "named", "x", "octal", "u", "U"):
            try:
                if kind == "string":
                    if raw:
                        if not raw_ok(it, style):
                            continue
                        src, used = "r" + style + it + style, [(cclass(it), "raw")]
                        if how != "itself":
                            continue
                    else:
                        src, used = encode_string(it, style, rnd, force=how)
                    exp = ("string", it)
                else:
                    src, used = encode_bytes(it, style, rnd, force=how)
                    exp = ("bytes", it)
            except Exception:
                continue
            if len(used) != 1 or (used[0][1] != how and not raw):
                continue
            key = (used[0], style)
            if key in seen:
                continue
            seen.add(key)
            out = core.api_eval(r, src, {})
            if not (out[0] == "V" and MV.same_value_ignoring_class(out[1], MV.canon_of(exp))):
                return f"{used[0][0]}:{used[0][1]}"
    return None


def check_string(acc, rnd, s: str):
    style = rnd.choice(STYLES)
    raw = rnd.random() < 0.2 and raw_ok(s, style)
    if raw:
        src = rnd.choice("rR") + style + s + style
        used = [(cclass(c), "raw") for c in s]
    else:
        src, used = encode_string(s, style, rnd)
    acc.hook("string")
    if any(h != "itself" or c != "ascii" for c, h in used):
        acc.nt(src)
    acc.cell("string", "style" + style[0] * (1 if len(style) == 1 else 3), "raw" if raw else "cooked")
    for c, h in set(used):
        acc.cell("string-char", c, h)
    outs = evaluate(acc, src)

    def describe(r, out):
        probe = single_char_probe("string", style, raw, r, s)
        st = ("raw-" if raw else "") + ("triple" if len(style) == 3 else "single")
        return f"{r} string {st} {probe or 'multi-char-interaction'} obs={diag.oclass(out)}"

    return judge(acc, "string", src, ("string", s), outs, describe), src


def check_bytes(acc, rnd, b: bytes):
    style = rnd.choice(STYLES)
    raw = False
    if rnd.random() < 0.12:
        # raw bytes literal: content must be valid UTF-8 text obeying the raw rules
        try:
            txt = b.decode("utf-8")
            if raw_ok(txt, style):
                raw = True
        except UnicodeDecodeError:
            pass
    if raw:
        src = rnd.choice(["br", "bR", "Br", "BR"]) + style + txt + style
        used = [(cclass(c), "raw") for c in txt]
    else:
        src, used = encode_bytes(b, style, rnd)
    acc.hook("bytes")
    if any(h != "itself" or c != "ascii" for c, h in used):
        acc.nt(src)
    acc.cell("bytes", "style" + style[0] * (1 if len(style) == 1 else 3), "raw" if raw else "cooked")
    for c, h in set(used):
        acc.cell("bytes-char", c, h)
    outs = evaluate(acc, src)

    def describe(r, out):
        st = ("raw-" if raw else "") + ("triple" if len(style) == 3 else "single")
        if raw:
            bad = sorted({cclass(c) for c in txt if ord(c) >= 0x80}) or sorted({cclass(c) for c in txt})
            return f"{r} bytes {st} {','.join(bad[:2])}:raw obs={diag.oclass(out)}"
        probe = single_char_probe("bytes", style, False, r, b)
        return f"{r} bytes {st} {probe or 'multi-char-interaction'} obs={diag.oclass(out)}"

    return judge(acc, "bytes", src, ("bytes", b), outs, describe), src


def check_int(acc, rnd, v: int):
    form = rnd.choice(["dec", "dec", "dec0", "hex", "HEX"])
    sign = "-" if v < 0 else ""
    a = abs(v)
    if form == "dec":
        src = sign + str(a)
    elif form == "dec0":
        src = sign + "0" * rnd.randint(1, 3) + str(a)
    elif form == "hex":
        src = sign + "0x" + format(a, "x")
    else:
        src = sign + "0x" + "0" * rnd.randint(0, 2) + format(a, "X")
    exp = ("int", v) if MV.INT_MIN <= v <= MV.INT_MAX else "E"
    acc.hook("int")
    acc.nt(src)
    outs = evaluate(acc, src)
    rng = "in-range" if exp != "E" else "out-of-range"
    return judge(acc, "int:" + form, src, exp, outs, lambda r, out: f"{r} int {form} {rng} {'neg' if v < 0 else 'nonneg'} obs={diag.oclass(out)}"), src


def check_uint(acc, rnd, v: int):
    form = rnd.choice(["dec", "dec", "dec0", "hex", "HEX"])
    sign, a = ("-", -v) if v < 0 else ("", v)  # the grammar lets a uint literal carry a sign: -1u is a literal, and out of range
    if form == "dec":
        src = sign + str(a)
    elif form == "dec0":
        src = sign + "0" * rnd.randint(1, 3) + str(a)
    elif form == "hex":
        src = sign + "0x" + format(a, "x")
    else:
        src = sign + "0x" + format(a, "X")
    src += rnd.choice("uU")
    exp = ("uint", v) if 0 <= v <= MV.UINT_MAX else "E"
    acc.hook("uint")
    acc.nt(src)
    outs = evaluate(acc, src)
    rng = "in-range" if exp != "E" else "out-of-range"
    return judge(acc, "uint:" + form, src, exp, outs, lambda r, out: f"{r} uint {form} {rng} obs={diag.oclass(out)}"), src


def check_double(acc, rnd, f: float):
    form = rnd.choice(["repr", "repr", "exp", "EXP+", "lead-dot", "trail-dot", "many-digits"])
    sign = "-" if math.copysign(1, f) < 0 else ""
    a = abs(f)
    r_ = repr(a)
    if form == "repr":
        src = MV.double_lit(a)
    elif form in ("exp", "EXP+"):
        m, e = ("%.17e" % a).split("e")
        m = m.rstrip("0").rstrip(".") if "." in m else m
        e = int(e)
        src = f"{m}e{e}" if form == "exp" else f"{m}E{'+' if e >= 0 else '-'}{abs(e):02d}"
    elif form == "lead-dot":
        if 0 < a < 1 and "e" not in r_:
            src = r_[1:]
        else:
            a = rnd.randint(0, 999999) / 1000000.0
            src = repr(a)[1:] if "e" not in repr(a) and a > 0 else ".5"
            a = float("0" + src)
    elif form == "trail-dot":
        a = float(rnd.choice([0, 1, 5, 10, 2**53, 123456789, int(min(a, 1e15))]))
        src = str(int(a)) + "."
    else:
        src = "%.25f" % a if a < 1e15 else MV.double_lit(a)
    src = sign + src
    exp_v = float(src)
    acc.hook("double")
    if a == 0 or a < 1e-300 or a > 1e300 or form != "repr":
        acc.nt(src)
    outs = evaluate(acc, src)
    return judge(acc, "double:" + form, src, ("double", exp_v), outs, lambda r, out: f"{r} double {form} obs={diag.oclass(out)}"), src


def run(ctx):
    acc = ctx.acc
    rnd = ctx.rnd
    core.celpy()
    # boundary numbers (partitioned)
    i = 0
    for v in MV.int_boundaries() + [MV.INT_MAX + 1, MV.INT_MIN - 1, 2**64, -(2**64), 10**30]:
        for _ in range(3):
            i += 1
            if ctx.mine(i):
                check_int(acc, rnd, v)
    for v in MV.uint_boundaries() + [MV.UINT_MAX + 1, 2**65, 10**30, -1, -2, -42, -255, -(2**31), -(2**63), -(2**63) - 1, -(2**64), -MV.UINT_MAX]:
        for _ in range(3):
            i += 1
            if ctx.mine(i):
                check_uint(acc, rnd, v)
    for v in MV.double_boundaries(False):
        if v in (math.inf, -math.inf):
            continue
        for _ in range(4):
            i += 1
            if ctx.mine(i):
                check_double(acc, rnd, v)
    # every single code point class x every spelling x every style (strings) and every octet (bytes)
    singles = ["a", "Z", "0", " ", '"', "'", "\\", "\n", "\r", "\t", "\a", "\b", "\f", "\v", "\x00", "\x1b", "\x7f", "\x80", "\xe9", "\xff", "Ā", "€", "�", "￿", "\U00010000", "\U0001f431", "\U0010ffff"]
    for ch in singles:
        for style in STYLES:
            for how in ("itself", "named", "x", "octal", "u", "U"):
                i += 1
                if not ctx.mine(i):
                    continue
                for ctxs in (ch, "a" + ch + "b", ch + ch) + (("a\r\nb", "\n\r", "\r\n\r\n") if ch == "\r" else ()):
                    try:
                        src, used = encode_string(ctxs, style, rnd, force=how)
                    except Exception:
                        continue
                    acc.hook("string")
                    acc.nt(src)
                    for c, h in set(used):
                        acc.cell("string-char", c, h)
                    outs = evaluate(acc, src)
                    st = "triple" if len(style) == 3 else "single"
                    judge(acc, "string", src, ("string", ctxs), outs, lambda r, out, st=st, style=style, v=ctxs: f"{r} string {st} {single_char_probe('string', style, False, r, v) or 'multi-char-interaction'} obs={diag.oclass(out)}")
    for o in range(256):
        for style in STYLES:
            i += 1
            if not ctx.mine(i):
                continue
            for how in ("x", "octal", "itself", "named"):
                b = bytes([o])
                src, used = encode_bytes(b + b"a", style, rnd, force=how)
                acc.hook("bytes")
                acc.nt(src)
                outs = evaluate(acc, src)
                st = "triple" if len(style) == 3 else "single"
                judge(acc, "bytes", src, ("bytes", b + b"a"), outs, lambda r, out, st=st, style=style, v=b + b"a": f"{r} bytes {st} {single_char_probe('bytes', style, False, r, v) or 'multi-char-interaction'} obs={diag.oclass(out)}")
    acc.exhaustive.append("27 code-point representatives x 4 quoting styles x 6 spellings (strings); 256 octets x 4 styles x 4 spellings (bytes)")

    n = ctx.scale(40000, 800000)
    for j in range(n):
        if ctx.expired():
            break
        r = rnd.random()
        if r < 0.4:
            ok, src = check_string(acc, rnd, MV.rand_string(rnd, 10))
        elif r < 0.65:
            ok, src = check_bytes(acc, rnd, MV.rand_bytes(rnd, 10))
        elif r < 0.78:
            v = MV.rand_int(rnd)
            if rnd.random() < 0.1:
                v = rnd.choice([MV.INT_MAX + rnd.randint(1, 10), MV.INT_MIN - rnd.randint(1, 10), rnd.randint(2**63, 2**70), -rnd.randint(2**63 + 1, 2**70)])
            ok, src = check_int(acc, rnd, v)
        elif r < 0.88:
            v = MV.rand_uint(rnd)
            if rnd.random() < 0.08:
                v = -rnd.choice([1, 2, 7, 255, 2**32, v or 1])
            if rnd.random() < 0.1:
                v = MV.UINT_MAX + rnd.randint(1, 2**20)
            ok, src = check_uint(acc, rnd, v)
        else:
            ok, src = check_double(acc, rnd, MV.rand_double(rnd, finite=True))
        if j % 1499 == 0:
            acc.sample({"literal": src})


def replay(case):
    core.celpy()
    out = core.api_eval(case["runner"], case["src"], {})
    exp = case["expected"]
    if exp == "E":
        ok = out[0] == "E"
    else:
        ok = out[0] == "V" and MV.same_value_ignoring_class(out[1], MV.canon_of(MV.dec(exp)))
    return ok, f"literal {case['src']!r} [{case['runner']}] -> {out}\nexpected {exp}"
