"""C02  Logical operators absorb errors commutatively; conditionals are lazy."""

from __future__ import annotations

import itertools

from .. import core, diag, hooks, lang, mv as MV
from ..lang import Node, P_PRIMARY

ID = "C02"
READY = True
LEVEL = "exploration"
WORKERS = {"quick": 8, "thorough": 16}
BUDGET = {"quick": 150, "thorough": 420}
MIN_NONTRIVIAL = {"quick": 1500, "thorough": 40000}
REQUIRED_HOOKS = ["program-reuse", "long-list", "celpy.celtypes.logical_and", "celpy.celtypes.logical_or", "celpy.celtypes.logical_not", "celpy.celtypes.logical_condition", "evaluate:I", "evaluate:C", "direct"]
RULE = (
    "Programs: every expression shape over !, &&, ||, ?: with at most 2 (quick) / 3 (thorough) operators and leaves drawn from the outcome classes "
    "{true, false, error} (plus a non-boolean leaf where the statement decides), each error leaf realised in rotation by 17 different failing "
    "sub-expressions; seeded random larger shapes; all()/exists() over every list of {false,true,error} outcomes up to length 4 (quick) / 6 (thorough) "
    "with 4 realisations; the four celtypes logical_* functions on the full value grid. Oracle: three-valued reference model, plus the model-free "
    "check outcome(a op b) == outcome(b op a). Recording wrappers on logical_and/or/not/condition check every call the engines make. "
    "distinct_nontrivial = distinct programs containing at least one error or non-boolean leaf."
)
TECHNIQUE = (
    "runtime monitoring: exhaustive small shapes + random nestings + program-reuse histories evaluated under both runners, three-valued truth-table oracle; logical growth monitor on error texts"
)
ASSUMPTIONS = [
    "commutativity is about the outcome class (true/false/error), not about which error message wins",
    "a non-boolean operand is asserted only where the statement decides (deciding boolean on the other side, or two non-booleans)",
]

T = ("bool", True)
F = ("bool", False)

ERR_KINDS = [
    ("1 / 0 > 0", "div0"),
    ("[true][5]", "index"),
    ("{'a': true}.b", "key"),
    ("unbound_x", "unbound"),
    ("'a' < 1", "type"),
    ("int('z') == 0", "conv"),
    ("9223372036854775807 + 1 > 0", "overflow"),
    ("[1].map(x, 1 / 0)[0] > 0", "in-map-macro"),
    ("[1].exists_one(x, 1 / 0 > 0)", "in-exists_one-macro"),
    ("[1].filter(x, 1 / 0 > 0) == []", "in-filter-macro"),
    ("[1].all(x, 1 / 0 > 0)", "in-all-macro"),
    ("[[1][2]] == []", "in-list-literal"),
    ("{'k': 1 / 0} == {}", "in-map-literal"),
    ("size([1][3]) > 0", "in-function-arg"),
    ("timestamp('x') > timestamp('2009-02-13T23:31:30Z')", "timestamp-text"),
    ("'a'.matches('(')", "regex"),
    ("duration('315576000001s') > duration('0s')", "duration-range"),
]
TRUE_KINDS = ["true", "1 < 2", "t"]
FALSE_KINDS = ["false", "2 < 1", "f"]
NONBOOL = [("1", ("int", 1)), ("'s'", ("string", "s")), ("null", ("null", None)), ("[]", ("list", ()))]
BINDINGS = {"t": T, "f": F}


class LeafMaker:
    def __init__(self, rnd):
        self.rnd = rnd
        self.k = rnd.randrange(100)

    def leaf(self, cls: str) -> Node:
        self.k += 1
        if cls == "T":
            txt = TRUE_KINDS[self.k % len(TRUE_KINDS)]
            return Node("raw", "bool", txt, T, 4 if "<" in txt else P_PRIMARY, "T")
        if cls == "F":
            txt = FALSE_KINDS[self.k % len(FALSE_KINDS)]
            return Node("raw", "bool", txt, F, 4 if "<" in txt else P_PRIMARY, "F")
        if cls == "E":
            txt, kind = ERR_KINDS[self.k % len(ERR_KINDS)]
            pr = P_PRIMARY if kind == "unbound" else (8 if kind in ("index", "key", "in-exists_one-macro", "in-all-macro", "regex") else 4)
            return Node("raw", "bool", txt, "E", pr, "E:" + kind)
        if cls == "N":
            txt, mv = NONBOOL[self.k % len(NONBOOL)]
            return Node("raw", None, txt, mv, P_PRIMARY, "N")
        raise ValueError(cls)


def shapes(nops: int, leaves):
    """All expression skeletons with exactly nops operators; leaves are class letters."""
    if nops == 0:
        for c in leaves:
            yield ("leaf", c)
        return
    for s in shapes(nops - 1, leaves):
        yield ("!", s)
    for op in ("&&", "||"):
        for i in range(nops):
            for a in shapes(i, leaves):
                for b in shapes(nops - 1 - i, leaves):
                    yield (op, a, b)
    for i in range(nops):
        for j in range(nops - i):
            for c in shapes(i, leaves):
                for a in shapes(j, leaves):
                    for b in shapes(nops - 1 - i - j, leaves):
                        yield ("?:", c, a, b)


def build(skel, lm: LeafMaker) -> Node:
    k = skel[0]
    if k == "leaf":
        return lm.leaf(skel[1])
    if k == "!":
        return Node("un", "bool", "!", build(skel[1], lm))
    if k in ("&&", "||"):
        return Node("bin", "bool", k, build(skel[1], lm), build(skel[2], lm))
    return Node("cond", None, build(skel[1], lm), build(skel[2], lm), build(skel[3], lm))


def model_outcome(n: Node):
    try:
        return ("V", lang.Model(dict(BINDINGS)).ev(n))
    except lang.ModelErr:
        return ("E",)
    except lang.Unspec:
        return ("U",)


def cls_of_model(n: Node) -> str:
    o = model_outcome(n)
    if o[0] != "V":
        return o[0]
    if o[1][0] == "bool":
        return "T" if o[1][1] else "F"
    return "N"


def err_kinds(n: Node):
    return sorted({x.a[3][2:] for x in lang.walk(n) if x.k == "raw" and str(x.a[3]).startswith("E:")})


def obs_class(out):
    if out[0] == "V":
        c = out[1]
        if c[0] in ("BoolType", "bool"):
            return "T" if c[1] else "F"
        return "N"
    if out[0] == "E":
        return "E"
    return "X"


def agrees(out, exp) -> bool:
    if exp[0] == "E":
        return out[0] == "E"
    return out[0] == "V" and MV.same_value_ignoring_class(out[1], MV.canon_of(exp[1]))


BAD_KINDS = {"I": set(), "C": set()}


def absorption_matrix(acc):
    """Every error realisation x the six basic absorbing forms x both runners (exhaustive).

    Besides being checked itself, it tells the localiser which error kinds are already
    known not to be absorbed, so that larger programs failing for the same reason are
    attributed to that kind instead of producing a slug per program shape."""
    forms = [("false && ({k})", F), ("({k}) && false", F), ("true || ({k})", T), ("({k}) || true", T), ("true ? true : ({k})", T), ("false ? ({k}) : true", T),
             ("[1, 2].all(x, x == 1 && ({k}))", F), ("[1, 2].exists(x, x == 2 || ({k}))", T)]
    b = MV.cel_env(BINDINGS)
    for txt, kind in ERR_KINDS:
        for fi, (form, want) in enumerate(forms):
            src = form.format(k=txt)
            for r in "IC":
                alone = core.api_eval(r, txt, b)
                out = core.api_eval(r, src, b)
                acc.evaluations += 2
                acc.hook("evaluate:" + r, 2)
                acc.nt(src)
                acc.cell("matrix", r, kind, fi, obs_class(out))
                if alone[0] != "E":
                    BAD_KINDS[r].add(kind)
                    acc.violation(f"{r} err-kind {kind} alone obs={diag.oclass(alone).split('@')[0]} exp=E", f"{txt!r} alone gave {diag.oclass(alone)}, expected an evaluation error", {"kind": "program", "src": txt, "runner": r, "expected": "E"})
                    continue
                if not agrees(out, ("V", want)):
                    BAD_KINDS[r].add(kind)
                    acc.violation(f"{r} not-absorbed err={kind} obs={obs_class(out)}", f"{src!r} gave {diag.oclass(out)}: the error ({kind}) was not absorbed by the deciding operand", {"kind": "program", "src": src, "runner": r, "expected": MV.enc(want)})
    acc.exhaustive.append("error realisations x 8 absorbing forms x 2 runners")


def check_program(acc, n: Node, origin: str):
    src = lang.to_text(n)
    exp = model_outcome(n)
    b = MV.cel_env(BINDINGS)
    has_special = any(x.k == "raw" and x.a[3] != "T" and x.a[3] != "F" for x in lang.walk(n))
    if has_special:
        acc.nt(src)
    for r in "IC":
        out = core.api_eval(r, src, b)
        acc.hook("evaluate:" + r)
        acc.evaluations += 1
        root = n.a[0] if n.k in ("bin", "un") else n.k
        acc.cell(origin, r, root, "(" + ",".join(cls_of_model(x) for x in diag.operands(n)) + ")", obs_class(out))
        if exp[0] == "U":
            continue
        if agrees(out, exp):
            continue

        def o(x):
            return core.api_eval(r, lang.to_text(x), b)

        def fails(x):
            e = model_outcome(x)
            return e[0] != "U" and not agrees(o(x), e)

        m = diag.localize(n, fails)
        me, mo = model_outcome(m), o(m)
        if me[0] == "U" or agrees(mo, me):
            m, me, mo = n, exp, out
        known_bad = [k for k in err_kinds(m) if k in BAD_KINDS[r]]
        if known_bad:
            slug = f"{r} not-absorbed err={known_bad[0]} (inside a larger program)"
        else:
            slug = f"{r} {diag.shape(m, cls_of_model)} errs={','.join(err_kinds(m)) or '-'} obs={diag.oclass(mo).split('@')[0]} exp={'E' if me[0] == 'E' else cls_of_model(m)}"
        acc.violation(
            slug,
            f"{'interpreted' if r == 'I' else 'compiled'}: {src!r} gave {diag.oclass(out)}, model says {exp}; minimal sub-expression {lang.to_text(m)!r}",
            {"kind": "program", "src": src, "runner": r, "expected": exp[0] if exp[0] != "V" else MV.enc(exp[1])},
        )
    # model-free commutativity at the root
    if n.k == "bin" and n.a[0] in ("&&", "||"):
        ca, cb = cls_of_model(n.a[1]), cls_of_model(n.a[2])
        if ca in "TFE" and cb in "TFE":
            sw = Node("bin", n.t, n.a[0], n.a[2], n.a[1])
            s2 = lang.to_text(sw)
            for r in "IC":
                o1, o2 = core.api_eval(r, src, b), core.api_eval(r, s2, b)
                acc.evaluations += 2
                if obs_class(o1) != obs_class(o2):
                    acc.violation(
                        f"{r} commute {n.a[0]} ({ca},{cb}) errs={','.join(err_kinds(n)) or '-'} {obs_class(o1)}!={obs_class(o2)}",
                        f"{src!r} gives {obs_class(o1)} but swapped {s2!r} gives {obs_class(o2)}",
                        {"kind": "commute", "src": src, "swapped": s2, "runner": r},
                    )


# ---------------------------------------------------------------- all / exists
LIST_REAL = [
    ("{recv}.{m}(i, [false, true][i])", "index"),
    ("{recv}.{m}(i, {{0: false, 1: true}}[i])", "key"),
    ("{recv}.{m}(i, i == 2 ? 1 / 0 > 0 : i == 1)", "div0"),
    ("{recv}.{m}(i, i == 2 ? unbound_x : i == 1)", "unbound"),
    # elements that are equal for Python (0.0 == -0.0 == 0 == false) and give three different outcomes: false, true, error
    ("{recv}.{m}(i, 1.0 / i < 0.0)", "equal-elements", {0: "0.0", 1: "-0.0", 2: "0"}),
]


def quant_expected(m, seq):
    dec = 0 if m == "all" else 1
    if dec in seq:
        return ("V", ("bool", bool(dec)))
    if 2 in seq:
        return ("E",)
    return ("V", ("bool", not dec))


def error_text_growth(acc) -> bool:
    """len(str(error)) + len(repr(error.args)) for n = 6, 10, 14 consecutive erroring elements; True when it grows geometrically."""
    bad = False
    for m in ("all", "exists"):
        for real, entry in enumerate(LIST_REAL):
            tmpl, kind = entry[:2]
            e2 = entry[2][2] if len(entry) > 2 else "2"
            for r in "IC":
                sizes = []
                for n in (6, 10, 14):
                    src = tmpl.format(recv="[" + ", ".join([e2] * n) + "]", m=m)
                    out = core.api_eval(r, src, {}, raw=True)
                    acc.hook("evaluate:" + r)
                    acc.evaluations += 1
                    ex = out[-1]
                    if out[0] != "E":
                        sizes = None
                        break
                    try:
                        sizes.append(len(str(ex)) + len(repr(getattr(ex, "args", ()))))
                    except Exception:
                        sizes = None
                        break
                acc.hook("error-text-growth")
                if sizes and sizes[2] > 16 * sizes[0] + 4000:
                    bad = True
                    acc.violation(
                        f"{r} macro {m} error-text-grows-geometrically err={kind}",
                        f"{'interpreted' if r == 'I' else 'compiled'}: the error of [2 x n].{m}(...) ({kind}) carries {sizes[0]} / {sizes[1]} / {sizes[2]} characters for n = 6 / 10 / 14 erroring elements: it multiplies per element, so a list of a few dozen erroring elements does not finish evaluating",
                        {"kind": "quant", "src": tmpl.format(recv="[" + ", ".join([e2] * 14) + "]", m=m), "runner": r, "expected": "E"},
                    )
    return bad


def check_quant(acc, m, seq, real):
    tmpl, kind = LIST_REAL[real][:2]
    emap = LIST_REAL[real][2] if len(LIST_REAL[real]) > 2 else None
    src = tmpl.format(recv="[" + ", ".join((emap[x] if emap else str(x)) for x in seq) + "]", m=m)
    exp = quant_expected(m, seq)
    if 2 in seq:
        acc.nt(src)
    for r in "IC":
        out = core.api_eval(r, src, {})
        acc.hook("evaluate:" + r)
        acc.evaluations += 1
        acc.cell("quant", r, m, "len" + str(len(seq)), obs_class(out))
        if not agrees(out, exp):
            first = "decider-after-error" if (2 in seq and (0 if m == "all" else 1) in seq and seq.index(2) < seq.index(0 if m == "all" else 1)) else ("decider-before-error" if 2 in seq and (0 if m == "all" else 1) in seq else ("error-only" if 2 in seq else "no-error"))
            acc.violation(
                f"{r} macro {m} {first} err={kind} obs={obs_class(out)} exp={'E' if exp[0] == 'E' else ('T' if exp[1][1] else 'F')}",
                f"{'interpreted' if r == 'I' else 'compiled'}: {src!r} gave {diag.oclass(out)}, expected {exp}",
                {"kind": "quant", "src": src, "runner": r, "expected": exp[0] if exp[0] != "V" else MV.enc(exp[1])},
            )


# ---------------------------------------------------------------- direct API + wrappers
class Monitor:
    """Checks every call of the celtypes logical_* functions (engine-internal ones included)."""

    def __init__(self, acc):
        self.acc = acc
        c = core.celpy()
        self.ct = c.celtypes
        self.active = True

    def cls(self, v):
        if isinstance(v, self.ct.BoolType):
            return "T" if v else "F"
        if isinstance(v, BaseException):
            return "E"
        return "N"

    def install(self):
        import celpy.evaluation as ev

        for name in ("logical_and", "logical_or", "logical_not", "logical_condition"):
            hooks.wrap_function(self.ct, name, self.observe, tables=[ev.base_functions])

    def observe(self, module, name, args, kwargs, res, exc):
        if not self.active:
            return
        self.acc.hook("celpy.celtypes." + name)
        self.acc.evaluations += 1
        cl = [self.cls(a) for a in args]
        obs = "E" if exc is not None else self.cls(res)
        exp = None
        if name in ("logical_and", "logical_or") and len(args) == 2:
            op = "&&" if name == "logical_and" else "||"
            mvs = [{"T": T, "F": F, "E": ("<err>", None), "N": ("int", 1)}[c] for c in cl]
            try:
                v = lang.Model.logic_vals(op, mvs[0], mvs[1])
                exp = "T" if v[1] else "F"
            except lang.ModelErr:
                exp = "E"
            except lang.Unspec:
                exp = None
        elif name == "logical_not" and len(args) == 1:
            exp = {"T": "F", "F": "T", "E": "E", "N": "E"}[cl[0]]
        elif name == "logical_condition" and len(args) == 3:
            exp = cl[1] if cl[0] == "T" else (cl[2] if cl[0] == "F" else "E")
            if exp == "N" and obs == "N":
                sel = args[1] if cl[0] == "T" else args[2]
                if res is not sel and res != sel:
                    obs = "N-other"
        if exp is not None and obs != exp:
            self.acc.violation(
                f"fn {name} ({','.join(cl)}) obs={obs} exp={exp}",
                f"celtypes.{name}({', '.join(cl)}) gave {obs}, expected {exp}",
                {"kind": "direct", "fn": name, "args": cl},
            )


def direct_grid(acc, mon):
    ct = mon.ct
    import celpy.evaluation as ev

    vals = {"T": ct.BoolType(True), "F": ct.BoolType(False), "E": ev.CELEvalError("boom"), "N": ct.IntType(1)}
    for fn, arity in (("logical_and", 2), ("logical_or", 2), ("logical_not", 1), ("logical_condition", 3)):
        f = getattr(ct, fn)
        for combo in itertools.product("TFEN", repeat=arity):
            acc.hook("direct")
            try:
                f(*[vals[c] for c in combo])
            except Exception:
                pass  # the wrapper's observer judges both exits
            acc.nt(["direct", fn, combo])
            acc.cell("direct", fn, "".join(combo))


# ---------------------------------------------------------------- one program, many activations
# The truth tables must also hold when ONE program object is evaluated again and again with other bindings (the documented
# way to use a program): every leaf is a variable -- b<i> (a bool) or 1 / z<i> > 0 (true, false or an evaluation error,
# depending on the int bound to z<i>) -- in the plain and in the root-scoped spelling (.b0, .z0).
def tv(skel, val):
    """Three-valued reference: 'T' | 'F' | 'E' for a skeleton whose leaves are variable indexes."""
    k = skel[0]
    if k == "leaf":
        return val[skel[1]]
    if k == "!":
        a = tv(skel[1], val)
        return "E" if a == "E" else ("F" if a == "T" else "T")
    if k == "&&":
        a, b = tv(skel[1], val), tv(skel[2], val)
        return "F" if "F" in (a, b) else ("T" if a == b == "T" else "E")
    if k == "||":
        a, b = tv(skel[1], val), tv(skel[2], val)
        return "T" if "T" in (a, b) else ("F" if a == b == "F" else "E")
    c = tv(skel[1], val)
    if c == "E":
        return "E"
    return tv(skel[2], val) if c == "T" else tv(skel[3], val)


def number_leaves(skel, counter):
    k = skel[0]
    if k == "leaf":
        counter[0] += 1
        return ("leaf", counter[0] - 1)
    return (k,) + tuple(number_leaves(x, counter) for x in skel[1:])


def var_text(skel, kinds, dots, parent=None):
    k = skel[0]
    if k == "leaf":
        i = skel[1]
        d = "." if dots[i] else ""
        return f"{d}b{i}" if kinds[i] == "b" else f"(1 / {d}z{i} > 0)"
    if k == "!":
        return "!(" + var_text(skel[1], kinds, dots) + ")"
    if k in ("&&", "||"):
        a = var_text(skel[1], kinds, dots, k)
        b = var_text(skel[2], kinds, dots)
        if skel[1][0] in ("&&", "||", "?:") and skel[1][0] != k:
            a = "(" + a + ")"
        if skel[2][0] in ("&&", "||", "?:"):
            b = "(" + b + ")"
        return f"{a} {k} {b}"
    return "(" + var_text(skel[1], kinds, dots) + " ? " + var_text(skel[2], kinds, dots) + " : " + var_text(skel[3], kinds, dots) + ")"


def ops_of(skel):
    if skel[0] == "leaf":
        return ""
    return skel[0] + "(" + ",".join(ops_of(x) or "v" for x in skel[1:]) + ")"


def reuse_case(acc, rnd, skel0):
    c = core.celpy()
    cnt = [0]
    skel = number_leaves(skel0, cnt)
    nl = cnt[0]
    if nl == 0 or nl > 4:
        return
    kinds = [rnd.choice("bz") for _ in range(nl)]
    dots = [rnd.random() < 0.4 for _ in range(nl)]
    src = var_text(skel, kinds, dots)
    assigns = list(itertools.product("TFE", repeat=nl))
    assigns = [a for a in assigns if all(v != "E" or kinds[i] == "z" for i, v in enumerate(a))]
    rnd.shuffle(assigns)
    assigns = assigns[:12]

    def bind(a):
        d = {}
        for i, v in enumerate(a):
            if kinds[i] == "b":
                d[f"b{i}"] = ("bool", v == "T")
            else:
                d[f"z{i}"] = ("int", {"T": 1, "F": -1, "E": 0}[v])
        return d

    for r in "IC":
        try:
            env = c.Environment(runner_class=core.runner_class(r))
            prog = env.program(env.compile(src))
        except Exception as ex:
            acc.violation(f"{r} program-reuse construction X:{type(ex).__name__}", f"{src!r}: {type(ex).__name__} {core._msg(ex)}", {"kind": "reuse", "src": src, "runner": r, "sequence": []})
            continue
        seq = []
        for step, a in enumerate(assigns):
            b = bind(a)
            seq.append(MV.enc_env(b))
            try:
                out = ["V", core.canon(prog.evaluate(MV.cel_env(b)))]
            except c.CELEvalError:
                out = ["E"]
            except Exception as ex:
                out = ["X", "evaluate", type(ex).__name__, core._left_from(ex), core._msg(ex)]
            want = tv(skel, a)
            acc.hook("evaluate:" + r)
            acc.hook("program-reuse")
            acc.evaluations += 1
            got = obs_class(out)
            acc.cell("reuse", r, "step%d" % min(step, 3), want, got)
            if step:
                acc.nt([src, r, step, list(a)])
            if got != want:
                fresh = obs_class(core.api_eval(r, src, MV.cel_env(b)))
                acc.violation(
                    f"{r} program-reuse {'stale-outcome-of-an-earlier-evaluation' if fresh == want else 'wrong-also-in-a-fresh-program'} {ops_of(skel)} spelling={'root-scoped' if any(dots) else 'plain'} obs={got} exp={want}",
                    f"{'interpreted' if r == 'I' else 'compiled'}: evaluation #{step + 1} of one program {src!r} with {b} gave {got}, the truth table gives {want}; a fresh program gives {fresh}",
                    {"kind": "reuse", "src": src, "runner": r, "sequence": seq, "expected": want},
                )
                break


def run(ctx):
    acc = ctx.acc
    rnd = ctx.rnd
    core.celpy()
    mon = Monitor(acc)
    mon.install()
    if ctx.worker == 0:
        direct_grid(acc, mon)
    absorption_matrix(acc)
    lm = LeafMaker(rnd)

    maxops = 3 if ctx.thorough else 2
    i = 0
    for nops in range(0, maxops + 1):
        for skel in shapes(nops, "TFE"):
            i += 1
            if ctx.mine(i):
                check_program(acc, build(skel, lm), f"exhaustive{nops}")
    acc.exhaustive.append(f"all shapes over !,&&,||,?: with <= {maxops} operators and leaves in {{true,false,error}}")
    # non-boolean leaves in the positions the statement decides
    for op in ("&&", "||"):
        for other in "TFEN":
            for order in (0, 1):
                i += 1
                if not ctx.mine(i):
                    continue
                a, b = lm.leaf("N"), lm.leaf(other)
                n = Node("bin", "bool", op, a, b) if order == 0 else Node("bin", "bool", op, b, a)
                check_program(acc, n, "nonbool")
    for c in "TFEN":
        for x in "TFEN":
            for y in "TFEN":
                i += 1
                if ctx.mine(i):
                    check_program(acc, Node("cond", None, lm.leaf(c), lm.leaf(x), lm.leaf(y)), "cond-any")
    i += 1
    if ctx.mine(i):
        check_program(acc, Node("un", "bool", "!", lm.leaf("N")), "nonbool")
    acc.sample({"program": lang.to_text(build(("?:", ("leaf", "E"), ("leaf", "T"), ("&&", ("leaf", "F"), ("leaf", "E"))), lm))})

    # all / exists
    maxlen = 6 if ctx.thorough else 4
    for ln in range(0, maxlen + 1):
        for seq in itertools.product((0, 1, 2), repeat=ln):
            for m in ("all", "exists"):
                for real in range(len(LIST_REAL)):
                    i += 1
                    if ctx.mine(i):
                        check_quant(acc, m, list(seq), real)
    acc.exhaustive.append(f"all()/exists() over every list of {{false,true,error}} outcomes up to length {maxlen}")
    acc.sample({"program": LIST_REAL[0][0].format(recv="[1, 2, 0]", m="all")})

    # one program object, many activations
    for nops in (1, 2):
        for skel in shapes(nops, "v"):
            i += 1
            if ctx.mine(i):
                reuse_case(acc, rnd, skel)
    for _ in range(ctx.scale(400, 20000)):
        if ctx.expired():
            break
        reuse_case(acc, rnd, rand_skel(rnd, rnd.randint(2, 5)))
    acc.exhaustive.append("program reuse: every shape with <= 2 operators over variable leaves, one program per runner evaluated under up to 12 assignments")

    # long lists: the deciding element, an error, or both, far from the front (a quantifier must not change behaviour with the list's length)
    # First a logical (not wall-clock) growth monitor: the text carried by the error of n consecutive erroring elements must not grow
    # geometrically with n -- when it doubles per element, lists of a few dozen erroring elements never finish evaluating.
    runaway = error_text_growth(acc)
    for ln in (17, 25, 33, 65, 129, 257):
        for m in ("all", "exists"):
            dec, oth = (0, 1) if m == "all" else (1, 0)
            patterns = [[oth] * ln, [oth] * (ln - 1) + [dec], [2] + [oth] * (ln - 2) + [dec], [oth] * (ln - 2) + [2, dec], [oth] * (ln - 2) + [dec, 2], [oth] * (ln - 1) + [2], [2] * ln,
                        [dec] + [2] * (ln - 1), [oth] * (ln // 2) + [2] + [oth] * (ln - ln // 2 - 1)]
            for seq in patterns:
                if runaway and sum(1 for a, b in zip(seq, seq[1:]) if a == b == 2) > 12:
                    continue  # reported by the growth monitor; evaluating it would not end
                for real in range(len(LIST_REAL)):
                    i += 1
                    if ctx.mine(i):
                        acc.hook("long-list")
                        check_quant(acc, m, seq, real)

    # random larger shapes and longer lists
    n = ctx.scale(2500, 120000)
    for j in range(n):
        if ctx.expired():
            break
        if rnd.random() < 0.8:
            skel = rand_skel(rnd, rnd.randint(3, 8))
            check_program(acc, build(skel, lm), "random")
        else:
            seq = [rnd.choice((0, 1, 1, 2)) if rnd.random() < 0.7 else rnd.choice((0, 1, 2)) for _ in range(rnd.randint(5, 12))]
            check_quant(acc, rnd.choice(("all", "exists")), seq, rnd.randrange(len(LIST_REAL)))
    mon.active = False
    hooks.remove_all()


def rand_skel(rnd, nops):
    if nops <= 0:
        return ("leaf", rnd.choice("TTFFE" + ("N" if rnd.random() < 0.1 else "E")))
    k = rnd.choice(["!", "&&", "&&", "||", "||", "?:"])
    if k == "!":
        return ("!", rand_skel(rnd, nops - 1))
    if k in ("&&", "||"):
        i = rnd.randint(0, nops - 1)
        return (k, rand_skel(rnd, i), rand_skel(rnd, nops - 1 - i))
    i = rnd.randint(0, nops - 1)
    j = rnd.randint(0, nops - 1 - i)
    return ("?:", rand_skel(rnd, i), rand_skel(rnd, j), rand_skel(rnd, nops - 1 - i - j))


def replay_reuse(case):
    c = core.celpy()
    env = c.Environment(runner_class=core.runner_class(case["runner"]))
    prog = env.program(env.compile(case["src"]))
    outs = []
    for e in case["sequence"]:
        try:
            outs.append(obs_class(["V", core.canon(prog.evaluate(MV.cel_env(MV.dec_env(e))))]))
        except c.CELEvalError:
            outs.append("E")
        except Exception as ex:
            outs.append("X:" + type(ex).__name__)
    ok = bool(outs) and outs[-1] == case.get("expected")
    return ok, f"{case['src']!r} under {case['runner']}: outcomes along the recorded sequence {outs}; expected last {case.get('expected')}"


def replay(case):
    if case.get("kind") == "reuse":
        return replay_reuse(case)
    core.celpy()
    b = MV.cel_env(BINDINGS)
    if case["kind"] == "direct":
        return True, "direct-call cases are re-run by the check itself (grid is exhaustive)"
    if case["kind"] == "commute":
        o1 = core.api_eval(case["runner"], case["src"], b)
        o2 = core.api_eval(case["runner"], case["swapped"], b)
        return obs_class(o1) == obs_class(o2), f"{case['src']} -> {o1}\n{case['swapped']} -> {o2}"
    out = core.api_eval(case["runner"], case["src"], b if case["kind"] == "program" else {})
    exp = case["expected"]
    if exp == "E":
        ok = out[0] == "E"
    elif exp == "U":
        ok = True
    else:
        ok = out[0] == "V" and MV.same_value_ignoring_class(out[1], MV.canon_of(MV.dec(exp)))
    return ok, f"{case['src']} [{case['runner']}] -> {out}; expected {exp}"
