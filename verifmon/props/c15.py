"""C15  JSON documents convert to CEL values and back without loss."""

from __future__ import annotations

import base64
import json
import math
import re

from .. import core, diag, hooks, lang, mv as MV

ID = "C15"
READY = True
LEVEL = "exploration"
WORKERS = {"quick": 8, "thorough": 16}
BUDGET = {"quick": 150, "thorough": 400}
MIN_NONTRIVIAL = {"quick": 1500, "thorough": 30000}
REQUIRED_HOOKS = ["deep-document", "rejected-document", "json_to_cel", "encode", "decode", "path", "path-from-package", "evaluate:I", "evaluate:C", "special-encodings"]
RULE = (
    "Random JSON documents (depth <= 6; null, booleans, integers incl. int64 boundaries, floats incl. -0.0, subnormals and 1e308, arbitrary Unicode strings and "
    "keys, empty containers) are converted with json_to_cel and with json.loads(cls=CELJSONDecoder); every node must have the library class for its JSON kind "
    "(bool never IntType); json.dumps(cls=CELJSONEncoder) of the result must parse back to a document equal to the original under type-strict equality "
    "(bool != int != float, -0.0 by sign). For every root-to-node path the CEL expression built from .field / [\"key\"] / [i] steps (keys as bound variables and "
    "as literals) is evaluated under both runners over the converted document and must yield the converted sub-document; when the first step is an identifier the "
    "same path is also evaluated with the document bound as the environment's package (.field / field from the root, as the command line does). Timestamps (whole seconds), durations "
    "(whole seconds) and bytes must encode as RFC 3339 text, '<n>s' and base64. distinct_nontrivial = distinct documents with nesting depth >= 2 or a boundary "
    "scalar, and distinct (document, path) pairs of length >= 2."
)
ASSUMPTIONS = [
    "documents stay inside int64 and finite doubles (JSON has no NaN/Infinity)",
    ".field steps are used only for keys that are CEL identifiers and not reserved words",
    "the package-bound variant skips first steps that are Python keywords or Activation attribute names (the compiled runner's known C03/C04 findings) or built-in type/function names",
    "only whole-second timestamps/durations are asserted for the special encodings",
]

RESERVED = {"as", "break", "const", "continue", "else", "for", "function", "if", "import", "let", "loop", "package", "namespace", "return", "var", "void", "while", "true", "false", "null", "in"}
IDENT = re.compile(r"[_a-zA-Z][_a-zA-Z0-9]*")


def rand_doc(rnd, depth=0, maxdepth=4):
    r = rnd.random()
    if depth >= maxdepth or r < 0.45:
        k = rnd.random()
        if k < 0.1:
            return None
        if k < 0.25:
            return rnd.random() < 0.5
        if k < 0.5:
            return MV.rand_int(rnd)
        if k < 0.7:
            return MV.rand_double(rnd, finite=True)
        return MV.rand_string(rnd, 8)
    if r < 0.72:
        return [rand_doc(rnd, depth + 1, maxdepth) for _ in range(rnd.choice([0, 1, 2, 3, 4]))]
    d = {}
    for _ in range(rnd.choice([0, 1, 2, 3, 4])):
        kk = rnd.random()
        if kk < 0.4:
            key = rnd.choice(["a", "b", "name", "Key", "_x", "x1", "class", "get", "keys", "size", "in", "true", "if"])
        elif kk < 0.6:
            key = rnd.choice(["", " ", "a.b", "a b", "1", "0", "-", "é", "\U0001f431", "a\"b", "a'b", "a\\b", "\n"])
        else:
            key = MV.rand_string(rnd, 5)
        d[key] = rand_doc(rnd, depth + 1, maxdepth)
    return d


def doc_depth(d):
    if isinstance(d, list):
        return 1 + max([doc_depth(x) for x in d] or [0])
    if isinstance(d, dict):
        return 1 + max([doc_depth(x) for x in d.values()] or [0])
    return 0


def to_mv(d):
    if d is None:
        return ("null", None)
    if isinstance(d, bool):
        return ("bool", d)
    if isinstance(d, int):
        return ("int", d)
    if isinstance(d, float):
        return ("double", d)
    if isinstance(d, str):
        return ("string", d)
    if isinstance(d, list):
        return ("list", tuple(to_mv(x) for x in d))
    if isinstance(d, dict):
        return ("map", tuple((("string", k), to_mv(v)) for k, v in d.items()))
    raise ValueError(type(d))


def same_doc(a, b) -> bool:
    """Type-strict document equality."""
    if type(a) is not type(b):
        return False
    if isinstance(a, float):
        return core.dbits(a) == core.dbits(b)
    if isinstance(a, list):
        return len(a) == len(b) and all(same_doc(x, y) for x, y in zip(a, b))
    if isinstance(a, dict):
        return a.keys() == b.keys() and all(same_doc(a[k], b[k]) for k in a)
    return a == b


def scalar_kind(d):
    if d is None:
        return "null"
    if isinstance(d, bool):
        return "bool"
    if isinstance(d, int):
        return "int-edge" if d - MV.INT_MIN <= 2 or MV.INT_MAX - d <= 2 else ("int-big" if abs(d) > 2**53 else "int")
    if isinstance(d, float):
        if d == 0:
            return "float-zero" + ("-neg" if math.copysign(1, d) < 0 else "")
        return "float-integral" if d == int(d) and abs(d) < 1e15 else ("float-extreme" if abs(d) > 1e300 or abs(d) < 1e-300 else "float")
    if isinstance(d, str):
        return "string" if d.isascii() else "string-unicode"
    if isinstance(d, list):
        return "array" if d else "array-empty"
    return "object" if d else "object-empty"


def paths(d, prefix=()):
    yield prefix, d
    if isinstance(d, list):
        for i, x in enumerate(d):
            yield from paths(x, prefix + (("i", i),))
    elif isinstance(d, dict):
        for k, v in d.items():
            yield from paths(v, prefix + (("k", k),))


def first_class_error(c, mv, path="$"):
    """canon vs expected class table; returns (path, observed, expected) or None."""
    exp = MV.CLASS_OF[mv[0]]
    if c[0] != exp:
        return (path, c[0], exp)
    if mv[0] == "list":
        for i, (cc, mm) in enumerate(zip(c[1], mv[1])):
            e = first_class_error(cc, mm, f"{path}[{i}]")
            if e:
                return e
    if mv[0] == "map":
        want = MV.canon_of(mv)
        for (ck, cv), (wk, wv), (mk, mv_) in zip(c[1], want[1], sorted(mv[1], key=lambda kv: json.dumps(MV.canon_of(kv[0]), sort_keys=True))):
            if ck[0] != "StringType":
                return (path + ".<key>", ck[0], "StringType")
            e = first_class_error(cv, mv_, f"{path}.{mk[1][:8]}")
            if e:
                return e
    return None


def check_doc(acc, rnd, doc, celpy_mod):
    adapter = celpy_mod.adapter if hasattr(celpy_mod, "adapter") else None
    import celpy.adapter as ad

    mv = to_mv(doc)
    depth = doc_depth(doc)
    kinds = sorted({scalar_kind(x) for _, x in paths(doc)})
    if depth >= 2 or any(k in ("int-edge", "int-big", "float-zero-neg", "float-extreme", "string-unicode", "float-integral") for k in kinds):
        acc.nt(["doc", json.dumps(doc, sort_keys=True)])
    for k in kinds:
        acc.cell("doc-contains", k)
    text = json.dumps(doc)
    # 1. conversion and classes
    acc.hook("json_to_cel")
    acc.evaluations += 1
    try:
        cel = ad.json_to_cel(doc)
        c = core.canon(cel)
    except Exception as ex:
        acc.violation(f"json_to_cel raises {type(ex).__name__} kinds={','.join(kinds[:3])}", f"json_to_cel({text[:100]}) raised {type(ex).__name__}: {core._msg(ex)}", {"doc": text})
        return
    err = first_class_error(c, mv)
    if err or not MV.same_value_ignoring_class(c, MV.canon_of(mv)):
        what = f"class {err[1]} instead of {err[2]}" if err else "value differs"
        acc.violation(f"json_to_cel {('wrong-class ' + err[1] + '-for-' + err[2]) if err else 'wrong-value'}", f"json_to_cel({text[:100]}): {what} at {err[0] if err else '?'}", {"doc": text})
        return
    # 2. decoder agrees with json_to_cel
    acc.hook("decode")
    acc.evaluations += 1
    try:
        dec = json.loads(text, cls=ad.CELJSONDecoder)
        if core.canon(dec) != c:
            acc.violation("decoder differs-from-json_to_cel", f"json.loads(cls=CELJSONDecoder) of {text[:100]} differs from json_to_cel", {"doc": text})
    except Exception as ex:
        acc.violation(f"decoder raises {type(ex).__name__}", f"CELJSONDecoder on {text[:100]} raised {type(ex).__name__}", {"doc": text})
    # 3. encoder round trip
    acc.hook("encode")
    acc.evaluations += 1
    try:
        out_text = json.dumps(cel, cls=ad.CELJSONEncoder)
        back = json.loads(out_text)
        if not same_doc(back, doc):
            bad = first_diff(back, doc)
            acc.violation(f"encoder round-trip differs at-{scalar_kind(bad[1])}-became-{scalar_kind(bad[0])}", f"dumps(json_to_cel({text[:80]})) = {out_text[:80]}: {bad[0]!r:.40} vs {bad[1]!r:.40}", {"doc": text})
    except Exception as ex:
        acc.violation(f"encoder raises {type(ex).__name__} kinds={','.join(kinds[:3])}", f"CELJSONEncoder on json_to_cel({text[:100]}) raised {type(ex).__name__}: {core._msg(ex)}", {"doc": text})
    # 4. paths
    allp = list(paths(doc))
    if len(allp) > 14:
        allp = [allp[0]] + rnd.sample(allp[1:], 13)
    for path, sub in allp:
        check_path(acc, rnd, doc, cel, path, sub, text)


def first_diff(a, b):
    if type(a) is not type(b):
        return (a, b)
    if isinstance(a, list):
        if len(a) != len(b):
            return (a, b)
        for x, y in zip(a, b):
            if not same_doc(x, y):
                return first_diff(x, y)
    if isinstance(a, dict):
        if a.keys() != b.keys():
            return (a, b)
        for k in a:
            if not same_doc(a[k], b[k]):
                return first_diff(a[k], b[k])
    return (a, b)


NOT_BARE = {"int", "uint", "double", "bool", "string", "bytes", "list", "map", "null_type", "type", "timestamp", "duration", "dyn", "has", "size", "jq", "doc"}


_UNREP = None


def unrepresentable(name):
    """bare names the compiled runner is known not to handle (Python keywords, Activation attribute names: C03/C04 known findings)"""
    global _UNREP
    if _UNREP is None:
        import keyword

        ev = core.celpy().evaluation
        _UNREP = set(keyword.kwlist) | set(keyword.softkwlist) | set(dir(ev.Activation)) | {"activation", "base_activation", "celpy", "operator", "CEL"}
    return name in _UNREP or name.startswith("ex_")


def check_path(acc, rnd, doc, cel, path, sub, text):
    src = "doc"
    binds = {"doc": cel}
    steps = []
    ct = core.celpy().celtypes
    for n, (kind, v) in enumerate(path):
        if kind == "i":
            src += f"[{v}]"
            steps.append("index")
        else:
            style = rnd.random()
            if IDENT.fullmatch(v) and v not in RESERVED and style < 0.4:
                src += "." + v
                steps.append("field")
            elif style < 0.7:
                name = f"k{n}"
                binds[name] = ct.StringType(v)
                src += f"[{name}]"
                steps.append("key-var")
            else:
                src += "[" + MV.str_lit(v) + "]"
                steps.append("key-lit")
    acc.hook("path")
    if len(path) >= 2:
        acc.nt(["path", text, src])
    want = MV.canon_of(to_mv(sub))
    variants = [(src, binds, None)]
    if path and path[0][0] != "i" and IDENT.fullmatch(path[0][1]) and path[0][1] not in RESERVED and path[0][1] not in NOT_BARE and not unrepresentable(path[0][1]) and not re.fullmatch(r"k\d+", path[0][1]):
        # the document bound as the package (what the command line's --json-package does): .field / field from the root
        rest = src[len("doc"):]
        rest = rest[1 + len(path[0][1]):] if steps[0] == "field" else rest[rest.index("]") + 1:]
        pb = {k: v for k, v in binds.items() if k not in ("doc", "k0")}
        pb["jq"] = cel
        variants.append((rnd.choice([".", ""]) + path[0][1] + rest, pb, "jq"))
        acc.hook("path-from-package")
    for (src, binds, pkg), r in [(v, r) for v in variants for r in "IC"]:
        out = core.api_eval(r, src, binds, package=pkg)
        acc.hook("evaluate:" + r)
        acc.evaluations += 1
        ok = out[0] == "V" and out[1] == want
        acc.cell("path", r, "len%d" % min(len(path), 4), steps[-1] if steps else "root", scalar_kind(sub), "ok" if ok else "differ")
        if not ok:
            acc.violation(
                f"{r} path{'-from-package' if pkg else ''} last-step={'package-field' if pkg and len(steps) == 1 else steps[-1] if steps else 'root'} target={scalar_kind(sub)} obs={diag.oclass(out).split('@')[0]}",
                f"{'interpreted' if r == 'I' else 'compiled'}: {src[:100]} over {text[:100]} gave {core.jkey(out)[:80]}, expected {core.jkey(want)[:80]}",
                {"doc": text, "path": [list(p) for p in path], "runner": r},
            )


def special_encodings(acc, rnd, n):
    import celpy.adapter as ad

    ct = core.celpy().celtypes
    for _ in range(n):
        acc.hook("special-encodings")
        acc.evaluations += 1
        k = rnd.random()
        if k < 0.4:
            us = MV.rand_ts(rnd, whole_seconds=True)
            v, want, kind = MV.to_cel(("ts", us)), MV.ts_text(us), "timestamp"
        elif k < 0.7:
            us = MV.rand_dur(rnd, whole_seconds=True)
            v, want, kind = MV.to_cel(("dur", us)), f"{us // 10**6}s", "duration"
        else:
            b = MV.rand_bytes(rnd, 12)
            v, want, kind = ct.BytesType(b), base64.b64encode(b).decode("ascii"), "bytes"
        acc.nt([kind, want])
        wrap = rnd.choice(["bare", "list", "map"])
        obj = v if wrap == "bare" else (ct.ListType([v]) if wrap == "list" else ct.MapType({ct.StringType("k"): v}))
        try:
            got = json.loads(json.dumps(obj, cls=ad.CELJSONEncoder))
            got = got if wrap == "bare" else (got[0] if wrap == "list" else got["k"])
        except Exception as ex:
            got = "raised " + type(ex).__name__
        acc.cell("special", kind, wrap, "ok" if got == want else "differ")
        if got != want:
            acc.violation(f"encoder {kind} {wrap} {'raises' if str(got).startswith('raised') else 'wrong-text'}", f"CELJSONEncoder of a {kind} ({wrap}) gave {got!r:.60}, expected {want!r:.60}", {"doc": json.dumps({"special": kind, "want": want})})


def offset_timestamps(acc, rnd, n):
    """Timestamps that carry a UTC offset (made from text with an offset, from an aware datetime, or by a CEL expression): the encoder's
    text must be RFC 3339 and denote the SAME INSTANT, whatever offset it is written in."""
    import datetime

    import celpy.adapter as ad

    c = core.celpy()
    ct = c.celtypes
    lo, hi = MV.ts_boundaries()[0] + 15 * 3600 * 10**6, MV.ts_boundaries()[-1] - 15 * 3600 * 10**6
    prog = None
    for j in range(n):
        acc.hook("special-encodings")
        acc.hook("offset-timestamp-encoding")
        acc.evaluations += 1
        us = min(max(MV.rand_ts(rnd, whole_seconds=True), lo), hi)
        us -= us % 10**6  # whole seconds only (string(timestamp) drops the fraction; sub-second text is not asserted here)
        off = rnd.choice([330, -480, 60, -1, 840, -840, 345, -210]) if j % 3 else MV.rand_offset(rnd)
        text = MV.ts_text(us, off)
        how = ["text", "datetime", "cel"][j % 3]
        try:
            if how == "text":
                v = ct.TimestampType(text)
            elif how == "datetime":
                v = ct.TimestampType((datetime.datetime(1970, 1, 1, tzinfo=datetime.timezone.utc) + datetime.timedelta(microseconds=us)).astimezone(datetime.timezone(datetime.timedelta(minutes=off))))
            else:
                if prog is None:
                    env = c.Environment()
                    prog = env.program(env.compile("{'when': timestamp(t)}"))
                v = prog.evaluate({"t": ct.StringType(text)})
        except Exception as ex:
            acc.cell("special", "timestamp-offset", how, "construction-failed")
            continue
        acc.nt(["timestamp-offset", how, text])
        try:
            got = json.loads(json.dumps(v, cls=ad.CELJSONEncoder))
            if how == "cel":
                got = got["when"]
            ok = isinstance(got, str) and lang.parse_rfc3339(got) == us
        except (lang.Unspec, lang.ModelErr):
            ok = False
        except Exception as ex:
            got, ok = "raised " + type(ex).__name__, False
        acc.cell("special", "timestamp-offset", how, "off%+d" % (off // 60), "ok" if ok else "differ")
        if not ok:
            acc.violation(
                f"encoder timestamp carrying-offset made-from-{how} {'raises' if str(got).startswith('raised') else 'other-instant-or-not-rfc3339'}",
                f"CELJSONEncoder of the timestamp {text} (made from {how}) gave {got!r:.60}, which is not RFC 3339 text of that instant",
                {"doc": json.dumps({"special": "timestamp-offset", "want": text})},
            )


def deep_doc(rnd, depth):
    """A narrow document of the given nesting depth with every scalar kind at the bottom and along the way."""
    leaf = [True, False, None, 1, 0, -0.0, 1.5, "s", MV.INT_MAX]
    doc = list(leaf) if rnd.random() < 0.5 else {"t": True, "f": False, "n": None, "i": 1, "z": 0, "d": 1.5, "s": "s"}
    for lvl in range(depth - 1):
        if rnd.random() < 0.5:
            doc = [doc, rnd.choice(leaf)] if rnd.random() < 0.7 else [rnd.choice(leaf), doc, rnd.choice(leaf)]
        else:
            doc = {"k%d" % lvl: doc, "b": rnd.choice([True, False]), "x": rnd.choice(leaf)}
    return doc


def rejected_then_repaired(acc, rnd, c):
    """A document the converter rejects (an integer outside int64, a value that is not JSON) must not leave anything behind:
    the same Python object repaired in place, and fresh documents built right afterwards, convert like any other document."""
    import celpy.adapter as ad

    doc = rand_doc(rnd, 0, rnd.choice([2, 3, 4]))
    if not isinstance(doc, (list, dict)):
        doc = [doc, [1, 2, {"a": [3, 4]}], {"b": [5, {"c": 6}]}]
    # plant the offending value as the LAST thing the converter meets (everything before it is already converted)
    poison = rnd.choice([2**63, -(2**63) - 1, 10**30, object(), {1, 2}, b"bytes"])
    if isinstance(doc, list):
        doc.append([poison])
        fix = lambda: doc.__setitem__(-1, [7])
    else:
        doc["zzzz"] = {"p": poison}
        fix = lambda: doc.__setitem__("zzzz", {"p": 7})
    acc.hook("rejected-document")
    try:
        ad.json_to_cel(doc)
        acc.hook("rejected-document-accepted")
    except Exception:
        pass
    # mutate earlier parts too, then repair the offending value in place
    if isinstance(doc, list) and doc and isinstance(doc[0], list):
        doc[0].append("appended-after-rejection")
    elif isinstance(doc, dict):
        doc["added-after-rejection"] = [True, 1, 1.0]
    fix()
    check_doc(acc, rnd, doc, c)
    for _ in range(3):
        check_doc(acc, rnd, rand_doc(rnd, 0, rnd.choice([2, 3])), c)


def run(ctx):
    acc = ctx.acc
    rnd = ctx.rnd
    c = core.celpy()
    k = 100
    for depth in (7, 8, 9, 10, 12, 16, 24, 40, 80):
        for _ in range(3):
            k += 1
            if ctx.mine(k):
                acc.hook("deep-document")
                check_doc(acc, rnd, deep_doc(rnd, depth), c)
    for _ in range(ctx.scale(240, 8000)):
        rejected_then_repaired(acc, rnd, c)
    # scalars of every kind (systematic)
    scalars = [None, True, False, 0, 1, -1, MV.INT_MAX, MV.INT_MIN, 2**53 + 1, 0.0, -0.0, 1.0, -1.5, 1e308, 5e-324, 1e-7, 123456789.125, "", "a", "é\U0001f431", "\x00\n\"\\", [], {}, [[]], [{}], {"": None}, {"a": {"b": {"c": [1, 2, {"d": True}]}}}, [True, 1, 1.0, "1", None], {"true": True, "1": 1}]
    for i, s in enumerate(scalars):
        if ctx.mine(i):
            check_doc(acc, rnd, s, c)
    n = ctx.scale(12000, 240000)
    for j in range(n):
        if ctx.expired():
            break
        doc = rand_doc(rnd, 0, rnd.choice([1, 2, 3, 4, 6]))
        check_doc(acc, rnd, doc, c)
        if j % 499 == 0:
            acc.sample({"document": json.dumps(doc)[:300]})
    special_encodings(acc, rnd, ctx.scale(1600, 40000))
    offset_timestamps(acc, rnd, ctx.scale(1200, 30000))


def replay(case):
    import random

    c = core.celpy()
    acc = core.Acc()
    doc = json.loads(case["doc"])
    if isinstance(doc, dict) and "special" in doc:
        return True, "special-encoding cases are re-drawn by the check"
    check_doc(acc, random.Random(0), doc, c)
    return not acc.violations, "\n".join(v["what"] for v in acc.violations) or "held"
