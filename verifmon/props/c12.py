"""C12  Names resolve to the longest matching binding; macro variables are scoped."""

from __future__ import annotations

import itertools

from .. import core, diag, lang, mv as MV
from ..lang import Node

ID = "C12"
READY = True
LEVEL = "exploration"
WORKERS = {"quick": 8, "thorough": 16}
BUDGET = {"quick": 150, "thorough": 420}
MIN_NONTRIVIAL = {"quick": 2000, "thorough": 12000}
REQUIRED_HOOKS = ["evaluate:I", "evaluate:C", "resolve", "resolve-reuse", "macro-scope", "failing-body-scope", "macro-package", "declaration"]
RULE = (
    "Configurations over the alphabet {a,b,c}: every assignment {unbound, scalar, nested map} to the nine dotted names L+prefix (L in {'', p, p.q}; prefix in "
    "{a, a.b, a.b.c}), x package in {none, p, p.q}, x every reference a, a.b, a.b.c (enumerated completely in the thorough tier, sampled in the quick tier). Every scalar "
    "leaf is a unique integer tag, so the returned value identifies the binding that won. Oracle: candidate roots pkg.ref, parent(pkg).ref, ..., ref; the first "
    "level at which some bound name starts with level+first component wins; within it the longest bound name that is a prefix of the candidate; the remaining "
    "components are map field selections (missing => error). Declarations with/without a same-named binding; macro nests of depth <= 3 with colliding and "
    "distinct variable names, an outer binding of the same name, the variable used before/inside/after the macro. Both runners. "
    "distinct_nontrivial = distinct configurations with >= 2 competing bindings or a package, and distinct macro nests with a name collision."
)
ASSUMPTIONS = [
    "leading-dot references and declarations whose names differ from every binding are not generated (the statement is silent)",
    "a reference that denotes only a namespace (no bound name is a prefix of it) is not asserted",
]

PREFIXES = [("a",), ("a", "b"), ("a", "b", "c")]
LEVELS = [(), ("p",), ("p", "q")]
NAMES = [lv + pf for lv in LEVELS for pf in PREFIXES]
# a third package level (p.q.r): complete for configurations with at most two bound names, sampled otherwise
NAMES12 = NAMES + [("p", "q", "r") + pf for pf in PREFIXES]


def names_of(assign):
    return NAMES if len(assign) == len(NAMES) else NAMES12
KINDS = ("-", "s", "m")  # unbound, scalar, map


def make_value(name, kind, tagbase):
    """scalar: unique tag; map: nested map continuing the path a.b.c with unique tags at the leaves."""
    if kind == "s":
        return ("int", tagbase)
    rel = tuple(x for x in name if x in ("a", "b", "c"))
    rest = {("a",): ["b", "c"], ("a", "b"): ["c"], ("a", "b", "c"): []}[rel]
    # map for 'a': {b: {c: t1, z: t2}, c: t3}; for 'a.b': {c: t1, z: t2}; for 'a.b.c': {z: t1}
    if rest == ["b", "c"]:
        inner = ("map", ((("string", "c"), ("int", tagbase + 1)), (("string", "z"), ("int", tagbase + 2))))
        return ("map", ((("string", "b"), inner), (("string", "c"), ("int", tagbase + 3))))
    if rest == ["c"]:
        return ("map", ((("string", "c"), ("int", tagbase + 1)), (("string", "z"), ("int", tagbase + 2))))
    return ("map", ((("string", "z"), ("int", tagbase + 1)),))


def model_resolve(bindings, package, ref):
    """bindings: {tuple-name: mv}.  Returns ('V', mv) | ('E',) | ('U',) plus info dict."""
    pk = tuple(package.split(".")) if package else ()
    for cut in range(len(pk), -1, -1):
        level = pk[:cut]
        root = level + (ref[0],)
        if not any(n[: len(root)] == root for n in bindings):
            continue
        cand = level + tuple(ref)
        prefixes = [n for n in bindings if cand[: len(n)] == n]
        info = {"level": cut, "competing": len(prefixes), "longer_exists": any(len(n) > len(cand) and n[: len(cand)] == cand for n in bindings) or any(n[: len(root)] == root and n not in prefixes for n in bindings)}
        if not prefixes:
            return ("U",), info
        best = max(prefixes, key=len)
        info["wins"] = len(best) - cut
        v = bindings[best]
        for comp in cand[len(best) :]:
            if v[0] != "map":
                return ("E",), info
            for kk, vv in v[1]:
                if kk == ("string", comp):
                    v = vv
                    break
            else:
                return ("E",), info
        return ("V", v), info
    return ("E",), {"level": -1, "competing": 0, "longer_exists": False}


def agrees(out, exp):
    if exp[0] == "E":
        return out[0] == "E"
    return out[0] == "V" and MV.same_value_ignoring_class(out[1], MV.canon_of(exp[1]))


def check_config(acc, assign, package, ref):
    bindings = {}
    for i, (name, kind) in enumerate(zip(names_of(assign), assign)):
        if kind != "-":
            bindings[name] = make_value(name, kind, 1000 * (i + 1))
    if not bindings:
        return
    exp, info = model_resolve(bindings, package, ref)
    acc.hook("resolve")
    if exp[0] == "U":
        acc.hook("unspecified-namespace-reference")
        return
    src = ".".join(ref)
    benv0 = {".".join(n): MV.to_cel(v) for n, v in bindings.items()}
    if info["competing"] >= 2 or package or info["longer_exists"]:
        acc.nt(["cfg", assign, package, src])
    # the activation is a mapping: its iteration order must not matter (short names first, long names first)
    orders = [("short-first", benv0)]
    if len(benv0) >= 2:
        orders.append(("long-first", dict(reversed(list(benv0.items())))))
    for (order, benv), r in itertools.product(orders, "IC"):
        out = core.api_eval(r, src, benv, package=package or None)
        acc.hook("evaluate:" + r)
        acc.evaluations += 1
        ok = agrees(out, exp)
        acc.cell("resolve", r, "pkg%d" % (package.count(".") + 1 if package else 0), "level%d" % info["level"], "competing%d" % info["competing"], exp[0], "ok" if ok else "differ")
        if not ok:
            oc = diag.oclass(out).split('@')[0]
            if order != "short-first" and agrees(core.api_eval(r, src, benv0, package=package or None), exp):
                slug = f"{r} resolve depends-on-binding-order obs={oc} exp={'E' if exp[0] == 'E' else 'V:' + exp[1][0]}"
            elif info["longer_exists"]:
                slug = f"{r} resolve a-longer-bound-name-shares-the-root obs={oc} exp={'E' if exp[0] == 'E' else 'V:' + exp[1][0]}"
            else:
                slug = f"{r} resolve ref-len={len(ref)} pkg-depth={package.count('.') + 1 if package else 0} winner-len={info.get('wins', '-')} competing={min(info['competing'], 2)} obs={oc} exp={'E' if exp[0] == 'E' else 'V:' + exp[1][0]}"
            acc.violation(
                slug,
                f"{'interpreted' if r == 'I' else 'compiled'}: reference {src!r} package={package!r} order={order} bindings={ {'.'.join(n): v for n, v in bindings.items()} !r:.200} gave {core.jkey(out)[:90]}, expected {str(exp)[:90]}",
                {"kind": "resolve", "assign": list(assign), "package": package, "ref": list(ref), "runner": r},
            )


def check_reuse_config(acc, rnd, package, ref, steps=4):
    """One program per runner for one (package, reference), evaluated against a sequence of binding sets in which the level and the
    length of the winning binding change from call to call: every call must resolve against the bindings of THAT call."""
    c = core.celpy()
    src = ".".join(ref)
    seq = []
    for _ in range(steps):
        assign = tuple(rnd.choice(KINDS) if rnd.random() < 0.3 else "-" for _ in NAMES12)
        bindings = {name: make_value(name, kind, 1000 * (i + 1) + 7 * len(seq)) for i, (name, kind) in enumerate(zip(NAMES12, assign)) if kind != "-"}
        if bindings:
            seq.append((assign, bindings))
    if len(seq) < 2:
        return
    for r in "IC":
        try:
            env = c.Environment(package=package or None, runner_class=core.runner_class(r))
            prog = env.program(env.compile(src))
        except Exception:
            return
        for step, (assign, bindings) in enumerate(seq):
            exp, info = model_resolve(bindings, package, ref)
            if exp[0] == "U":
                continue
            benv = {".".join(n): MV.to_cel(v) for n, v in bindings.items()}
            try:
                out = ["V", core.canon(prog.evaluate(benv))]
            except c.CELEvalError:
                out = ["E"]
            except Exception as ex:
                out = ["X", "evaluate", type(ex).__name__, core._left_from(ex), core._msg(ex)]
            acc.hook("evaluate:" + r)
            acc.hook("resolve-reuse")
            acc.evaluations += 1
            ok = agrees(out, exp)
            acc.cell("resolve-reuse", r, "step%d" % min(step, 3), "level%d" % info["level"], exp[0], "ok" if ok else "differ")
            if step:
                acc.nt(["reuse", [list(a) for a, _ in seq[: step + 1]], package, src, r])
            if ok:
                continue
            fresh = core.api_eval(r, src, benv, package=package or None)
            if agrees(fresh, exp):
                acc.violation(
                    f"{r} resolve program-reuse outcome-depends-on-an-earlier-evaluation pkg-depth={package.count('.') + 1 if package else 0} obs={diag.oclass(out).split('@')[0]} exp={'E' if exp[0] == 'E' else 'V:' + exp[1][0]}",
                    f"{'interpreted' if r == 'I' else 'compiled'}: evaluation #{step + 1} of one program {src!r} (package {package!r}) with bindings { {'.'.join(n): v for n, v in bindings.items()} !r:.160} gave {core.jkey(out)[:80]}, expected {str(exp)[:80]}; a fresh program agrees with the expectation",
                    {"kind": "resolve-reuse", "assigns": [list(a) for a, _ in seq[: step + 1]], "package": package, "ref": list(ref), "runner": r},
                )
            break  # after a wrong step (stale, or a listed finding seen by check_config) later steps say nothing new


FAILING_BODY_SCOPES = [
    "[0, 1].exists(x, 1 / x == 1) && x == 10", "[1, 0].exists(x, 1 / x == 1) && x == 10", "[2, 0].all(x, 2 / x == 2) || x == 10", "([2, 0].map(x, 4 / x)[0] == 2 || true) ? x : -1",
    "([0, 2].map(x, 4 / x)[0] == 2 || true) ? x : -1", "([0].filter(x, 1 / x > 0).size() > 0 || true) ? x + y : -1", "([1, 0].exists_one(x, 1 / x == 1) || true) && x == 10",
    "[0, 1].exists(x, 1 / x == 1) ? x : -x", "[[0], [1]].exists(x, x.all(y, 1 / y == 1)) ? y : -y", "[[1], [0]].exists(x, x.all(y, 1 / y == 1)) ? y + x2 : -y",
    "[0, 1].exists(y, [y].exists(x, 1 / x == 1)) && x == 10 && y == 20", "(true || [0].map(x, 1 / x)[0] > 0) && x == 10", "[1, 2].map(x, [0, x].exists(y, 1 / y == 1) ? y : -y)",
    "[0, 5].exists(x, 5 / x == 1) ? [x, x + 1].map(x, x * 2) : [x]", "([{}].map(x, x.nokey)[0] == 1 || true) ? x : -1", "([[]].map(x, x[0])[0] == 1 || true) ? x + y : 0",
]


def failing_body_scopes(acc, ctx):
    """A macro's iteration variable shadows an outer variable inside the body ONLY -- also when the body fails for some element and
    the failure is absorbed by exists/all/||/&&/?: -- so the outer binding is what the same name denotes after the macro."""
    c = core.celpy()
    parser = c.CELParser(tree_class=c.TranspilerTree)
    from .. import larkconv

    outer = {"x": ("int", 10), "y": ("int", 20), "x2": ("int", 30)}
    for i, src in enumerate(FAILING_BODY_SCOPES):
        if not ctx.mine(i):
            continue
        node = larkconv.with_simple_literals(larkconv.conv(parser.parse(src)))
        try:
            exp = ("V", lang.Model(outer).ev(node))
        except lang.ModelErr:
            exp = ("E",)
        except lang.Unspec:
            continue
        acc.hook("macro-scope")
        acc.hook("failing-body-scope")
        acc.nt(["failing-body", src])
        for r in "IC":
            out = core.api_eval(r, src, MV.cel_env(outer))
            acc.hook("evaluate:" + r)
            acc.evaluations += 1
            ok = agrees(out, exp)
            acc.cell("failing-body-scope", r, exp[0], "ok" if ok else "differ")
            if not ok:
                acc.violation(
                    f"{r} macro-scope failing-body outer-name-after-the-macro obs={diag.oclass(out).split('@')[0]} exp={'E' if exp[0] == 'E' else 'V:' + exp[1][0]}",
                    f"{'interpreted' if r == 'I' else 'compiled'}: {src!r} with outer x=10, y=20, x2=30 gave {core.jkey(out)[:80]}, expected {str(exp)[:80]}",
                    {"kind": "macro", "src": src, "outer": MV.enc_env(outer), "runner": r, "expected": "E" if exp[0] == "E" else MV.enc(exp[1])},
                )


def macro_package_cases(acc, ctx):
    """Package-qualified resolution INSIDE a macro body, the iteration variable spelled like a component of the package or like
    nothing else in scope: the reference resolves as it does at the top level (the variable is one more root-level binding)."""
    k = 0
    for package in ("p", "p.q"):
        for var in ("p", "q", "x"):
            for ref in (("a",), ("a", "b")):
                for ai, bound in enumerate(itertools.product("-s", repeat=4)):
                    names = [("a",), ("p", "a"), ("p", "q", "a"), ("a", "b")]
                    bindings = {n: make_value(n, "s", 1000 * (i + 1)) for i, (n, kk) in enumerate(zip(names, bound)) if kk == "s"}
                    if not bindings:
                        continue
                    k += 1
                    if not ctx.mine(k):
                        continue
                    src = f"[10, 20].map({var}, {'.'.join(ref)})"
                    outs = []
                    exp_elems = []
                    undecided = False
                    for elem in (10, 20):
                        with_var = dict(bindings)
                        with_var[(var,)] = ("int", elem)
                        e, info = model_resolve(with_var, package, ref)
                        if e[0] == "U":
                            undecided = True
                        exp_elems.append(e)
                    if undecided:
                        continue
                    exp = ("E",) if any(e[0] == "E" for e in exp_elems) else ("V", ("list", tuple(e[1] for e in exp_elems)))
                    benv = {".".join(n): MV.to_cel(v) for n, v in bindings.items()}
                    acc.hook("macro-package")
                    acc.nt(["macro-package", package, var, src, sorted(benv)])
                    for r in "IC":
                        out = core.api_eval(r, src, benv, package=package)
                        acc.hook("evaluate:" + r)
                        acc.evaluations += 1
                        ok = agrees(out, exp)
                        acc.cell("macro-package", r, "pkg%d" % (package.count(".") + 1), "var=" + ("package-component" if var in package.split(".") else "other"), exp[0], "ok" if ok else "differ")
                        if not ok:
                            # the same reference at the top level (no macro): when that is wrong too, check_config reports it (or it is the listed finding)
                            top, _ = model_resolve(bindings, package, ref)
                            top_out = core.api_eval(r, ".".join(ref), benv, package=package)
                            if top[0] != "U" and not agrees(top_out, top):
                                continue
                            acc.violation(
                                f"{r} resolve inside-macro-body variable={'package-component' if var in package.split('.') else 'unrelated'} pkg-depth={package.count('.') + 1} obs={diag.oclass(out).split('@')[0]} exp={'E' if exp[0] == 'E' else 'V:list'}",
                                f"{'interpreted' if r == 'I' else 'compiled'}: {src!r} package={package!r} bindings={sorted(benv)} gave {core.jkey(out)[:80]}, expected {str(exp)[:80]} (the same reference at the top level resolves as expected)",
                                {"kind": "macro", "src": src, "outer": {}, "runner": r, "expected": "E" if exp[0] == "E" else MV.enc(exp[1])},
                            )
    acc.exhaustive.append("2 packages x 3 variable spellings x 2 references x every subset of {a, p.a, p.q.a, a.b} bound, inside a macro body")


# ---------------------------------------------------------------- declarations
def declaration_cases(acc, ctx):
    ct = core.celpy().celtypes
    cases = [
        ("a", {"a": ct.IntType}, {"a": ("int", 7)}, ("V", ("int", 7))),
        ("a", {"a": ct.StringType}, {"a": ("int", 7)}, ("V", ("int", 7))),
        ("a + 1", {"a": ct.IntType}, {"a": ("int", 7)}, ("V", ("int", 8))),
        ("a.b", {"a.b": ct.IntType}, {"a.b": ("int", 9)}, ("V", ("int", 9))),
        ("a.b", {"a.b": ct.IntType, "a": ct.MapType}, {"a.b": ("int", 9)}, ("V", ("int", 9))),
        ("a.b", {"a": ct.MapType}, {"a": ("map", ((("string", "b"), ("int", 3)),))}, ("V", ("int", 3))),
        ("a.b", {"a.b": ct.IntType}, {"a": ("map", ((("string", "b"), ("int", 3)),))}, None),
        ("a", {"a": ct.IntType, "b": ct.IntType}, {"a": ("int", 1), "b": ("int", 2)}, ("V", ("int", 1))),
        ("b", {"a": ct.IntType, "b": ct.IntType}, {"a": ("int", 1), "b": ("int", 2)}, ("V", ("int", 2))),
        ("x.y.z", {"x.y.z": ct.IntType}, {"x.y.z": ("int", 5)}, ("V", ("int", 5))),
        ("x.y.z", {"x.y": ct.MapType}, {"x.y": ("map", ((("string", "z"), ("int", 6)),))}, ("V", ("int", 6))),
        ("a", {"p.a": ct.IntType}, {"p.a": ("int", 11), "a": ("int", 12)}, ("V", ("int", 11))),
        ("a", {"a": ct.IntType}, {"p.a": ("int", 11), "a": ("int", 12)}, ("V", ("int", 11))),
        ("a", {"p.a": ct.IntType}, {"a": ("int", 12)}, None),
        # the package has the same name as a bound variable (what the CLI does with package "jq")
        ("p", {}, {"p": ("int", 5)}, ("V", ("int", 5))),
        ("p + 1", {}, {"p": ("int", 5)}, ("V", ("int", 6))),
        ("p.a", {}, {"p": ("map", ((("string", "a"), ("int", 8)),))}, ("V", ("int", 8))),
        ("a", {}, {"p": ("map", ((("string", "a"), ("int", 8)),))}, ("V", ("int", 8))),
        ("p.a", {}, {"p": ("int", 5)}, ("E",)),
        ("p", {}, {"p": ("string", "s"), "p.a": ("int", 1)}, None),
    ]
    for i, (src, ann, binds, exp) in enumerate(cases):
        if not ctx.mine(i):
            continue
        pkg = "p" if any(k.startswith("p.") or k == "p" for k in list(ann) + list(binds)) else None
        for with_decl in (True, False):
            for r in "IC":
                out = core.api_eval(r, src, MV.cel_env(binds), annotations=dict(ann) if with_decl else None, package=pkg)
                acc.hook("declaration")
                acc.hook("evaluate:" + r)
                acc.evaluations += 1
                acc.nt(["decl", src, sorted(ann), sorted(binds), with_decl])
                if exp is None:
                    continue
                ok = agrees(out, exp)
                acc.cell("declaration", r, "with" if with_decl else "without", "ok" if ok else "differ")
                if not ok:
                    acc.violation(
                        f"{r} declaration {'with' if with_decl else 'without'}-declaration dotted={'yes' if '.' in src else 'no'} pkg={'yes' if pkg else 'no'} obs={diag.oclass(out).split('@')[0]}",
                        f"{src!r} with declarations {sorted(ann) if with_decl else []} and bindings {binds} gave {core.jkey(out)[:80]}, expected {exp}",
                        {"kind": "declaration", "index": i, "with_decl": with_decl, "runner": r},
                    )
    return cases


# ---------------------------------------------------------------- macro scoping
def gen_nest(rnd, depth, visible, names):
    """Expression of type int whose value exposes which binding each variable use sees."""
    if depth == 0:
        return use(rnd, visible)
    var = rnd.choice(names)
    kind = rnd.choice(["map", "map", "filter", "exists", "all", "exists_one"])
    base = rnd.randint(1, 3) * 10 ** (depth + 1)
    lst = Node("list", ("list", "int"), *[Node("lit", "int", ("int", base + i)) for i in range(rnd.choice([1, 2, 2, 3, 3]))])
    if rnd.random() < 0.3:
        # chained macros: the range is itself a macro with (usually) another variable name
        v2 = rnd.choice(names)
        vis2 = dict(visible)
        vis2[v2] = "int"
        lst = Node("macro", ("list", "int"), "map", lst, v2, Node("bin", "int", "+", use(rnd, vis2), Node("lit", "int", ("int", 1))))
        n_items = len(lst.a[1].a)
    else:
        n_items = len(lst.a)
    inner_visible = dict(visible)
    inner_visible[var] = "int"
    body_val = Node("bin", "int", "+", use(rnd, inner_visible), gen_nest(rnd, depth - 1, inner_visible, names)) if rnd.random() < 0.8 else gen_nest(rnd, depth - 1, inner_visible, names)
    if kind == "map":
        m = Node("macro", ("list", "int"), "map", lst, var, body_val)
        # every element of the result is observable: first + 7 * last (+ 13 * middle)
        core_e = Node("index", "int", m, Node("lit", "int", ("int", 0)))
        if n_items >= 2:
            core_e = Node("bin", "int", "+", core_e, Node("bin", "int", "*", Node("index", "int", m, Node("lit", "int", ("int", n_items - 1))), Node("lit", "int", ("int", 7))))
        if n_items >= 3:
            core_e = Node("bin", "int", "+", core_e, Node("bin", "int", "*", Node("index", "int", m, Node("lit", "int", ("int", 1))), Node("lit", "int", ("int", 13))))
    elif kind == "filter":
        pred = Node("bin", "bool", ">", body_val, Node("lit", "int", ("int", rnd.choice([0, base, 10**6]))))
        m = Node("macro", ("list", "int"), "filter", lst, var, pred)
        core_e = Node("call", "int", "size", m)
    else:
        pred = Node("bin", "bool", rnd.choice([">", "==", "<"]), body_val, Node("lit", "int", ("int", rnd.choice([0, base, base + 1, 10**6]))))
        m = Node("macro", "bool", kind, lst, var, pred)
        core_e = Node("cond", "int", m, Node("lit", "int", ("int", 1)), Node("lit", "int", ("int", 2)))
    before = use(rnd, visible)
    after = use(rnd, visible)
    if rnd.random() < 0.4:
        # a sibling macro evaluated from the same enclosing scope: the first macro's variable must be gone
        after = Node("bin", "int", "+", after, gen_nest(rnd, 1, visible, names))
    return Node("bin", "int", "+", Node("bin", "int", "+", before, core_e), after)


def use(rnd, visible):
    if visible and rnd.random() < 0.85:
        return Node("var", "int", rnd.choice(sorted(visible)))
    return Node("lit", "int", ("int", rnd.randint(0, 9)))


def macro_cases(acc, ctx, n, keep=0.0):
    """keep: fraction of the worker's budget that must be left for the phases after this one"""
    rnd = ctx.rnd
    for j in range(n):
        if ctx.expired() or ctx.time_left() < keep * ctx.budget_s:
            break
        names = rnd.choice([["x"], ["x", "y"], ["x", "y", "i"], ["x", "x", "y"]])
        outer = {}
        for nm in set(names):
            if rnd.random() < 0.6:
                outer[nm] = ("int", rnd.randint(1, 9) * 10**5)
        node = gen_nest(rnd, rnd.randint(1, 3), {k: "int" for k in outer}, names)
        unbound = sorted(set(names) - set(outer))
        if unbound and rnd.random() < 0.15:
            # a name bound only inside some macro body, used outside it: must stay undeclared (an error)
            node = Node("bin", "int", "+", node, Node("var", "int", rnd.choice(unbound)))
        src = lang.to_text(node)
        try:
            exp = ("V", lang.Model(outer).ev(node))
        except lang.ModelErr:
            exp = ("E",)
        except lang.Unspec:
            continue
        acc.hook("macro-scope")
        macro_vars = [x.a[2] for x in lang.walk(node) if x.k == "macro"]
        collision = len(set(macro_vars)) < len(macro_vars) or any(v in outer for v in macro_vars)
        if collision:
            acc.nt(["macro", src, sorted(outer)])
        benv = MV.cel_env(outer)
        for r in "IC":
            out = core.api_eval(r, src, benv)
            acc.hook("evaluate:" + r)
            acc.evaluations += 1
            ok = agrees(out, exp)
            acc.cell("macro", r, "depth%d" % len(macro_vars), "collision" if collision else "distinct", exp[0], "ok" if ok else "differ")
            if not ok:
                def fails(x, r=r):
                    try:
                        e = ("V", lang.Model(outer).ev(x))
                    except lang.ModelErr:
                        e = ("E",)
                    except lang.Unspec:
                        return False
                    return not agrees(core.api_eval(r, lang.to_text(x), benv), e)

                m = diag.localize(node, fails)
                mv_ = [x.a[2] for x in lang.walk(m) if x.k == "macro"]
                acc.violation(
                    f"{r} macro-scope {diag.head(m)} nest-depth={len(mv_)} same-name-nested={'yes' if len(set(mv_)) < len(mv_) else 'no'} shadows-outer={'yes' if any(v in outer for v in mv_) else 'no'} obs={diag.oclass(out).split('@')[0]} exp={exp[0]}",
                    f"{'interpreted' if r == 'I' else 'compiled'}: {src[:160]!r} outer={outer} gave {core.jkey(out)[:80]}, expected {str(exp)[:80]}; minimal {lang.to_text(m)[:100]!r}",
                    {"kind": "macro", "src": src, "outer": MV.enc_env(outer), "runner": r, "expected": "E" if exp[0] == "E" else MV.enc(exp[1])},
                )
        if j % 499 == 0:
            acc.sample({"macro_nest": src, "outer": MV.enc_env(outer)})


def run(ctx):
    acc = ctx.acc
    rnd = ctx.rnd
    core.celpy()
    declaration_cases(acc, ctx)
    failing_body_scopes(acc, ctx)
    macro_package_cases(acc, ctx)
    macro_cases(acc, ctx, ctx.scale(2500, 16000), keep=0.75)
    refs = [("a",), ("a", "b"), ("a", "b", "c")]
    packages = ["", "p", "p.q"]
    packages4 = packages + ["p.q.r"]
    if ctx.thorough:
        i = 0
        done = True
        for assign in itertools.product(KINDS, repeat=len(NAMES)):
            i += 1
            if not ctx.mine(i):
                continue
            if ctx.time_left() < 0.25 * ctx.budget_s:
                done = False
                break
            for package in packages:
                # bindings under a package level that the package cannot reach are irrelevant but harmless
                for ref in refs:
                    check_config(acc, assign, package, ref)
        if done:
            acc.exhaustive.append("all 3^9 assignments x 3 packages x 3 references")
        for _ in range(ctx.scale(0, 160000)):
            if ctx.time_left() < 0.2 * ctx.budget_s:
                break
            assign = tuple(rnd.choice(KINDS) if rnd.random() < 0.35 else "-" for _ in NAMES12)
            check_config(acc, assign, rnd.choice(packages4), rnd.choice(refs))
    else:
        n = ctx.scale(3000, 0)
        for j in range(n):
            # bias towards few bound names (the interesting competitions)
            assign = tuple(rnd.choice(KINDS) if rnd.random() < 0.4 else "-" for _ in NAMES12)
            check_config(acc, assign, rnd.choice(packages4), rnd.choice(refs))
        # and every configuration with at most two bound names (complete)
        i = 0
        for a_i in range(len(NAMES12)):
            for b_i in range(a_i, len(NAMES12)):
                for ka in ("s", "m"):
                    for kb in ("s", "m"):
                        i += 1
                        if not ctx.mine(i):
                            continue
                        assign = ["-"] * len(NAMES12)
                        assign[a_i] = ka
                        assign[b_i] = kb
                        for package in packages4:
                            for ref in refs:
                                check_config(acc, tuple(assign), package, ref)
        acc.exhaustive.append("all configurations with at most two bound names (12 names, 3 package levels) x 4 packages x 3 references")
    for _ in range(ctx.scale(1600, 64000)):
        if ctx.expired():
            break
        check_reuse_config(acc, rnd, rnd.choice(packages4), rnd.choice(refs))
    if ctx.thorough:
        macro_cases(acc, ctx, ctx.scale(0, 48000))
    acc.sample({"bindings": {"a": "scalar#1000", "a.b": "map#2000"}, "package": "p", "reference": "a.b.c"})


def replay(case):
    core.celpy()
    acc = core.Acc()
    if case["kind"] == "resolve":
        check_config(acc, tuple(case["assign"]), case["package"], tuple(case["ref"]))
    elif case["kind"] == "resolve-reuse":
        c = core.celpy()
        package, ref, r = case["package"], tuple(case["ref"]), case["runner"]
        env = c.Environment(package=package or None, runner_class=core.runner_class(r))
        prog = env.program(env.compile(".".join(ref)))
        lines, ok = [], True
        for k, assign in enumerate(case["assigns"]):
            bindings = {name: make_value(name, kind, 1000 * (i + 1) + 7 * k) for i, (name, kind) in enumerate(zip(names_of(assign), assign)) if kind != "-"}
            exp, _ = model_resolve(bindings, package, ref)
            benv = {".".join(n): MV.to_cel(v) for n, v in bindings.items()}
            try:
                out = ["V", core.canon(prog.evaluate(benv))]
            except c.CELEvalError:
                out = ["E"]
            good = exp[0] == "U" or agrees(out, exp)
            lines.append(f"step {k + 1}: bindings {sorted(benv)} -> {core.jkey(out)[:80]} expected {str(exp)[:80]} {'ok' if good else 'DIFFERS'}")
            ok = ok and (good or k < len(case["assigns"]) - 1)
        return ok, "\n".join(lines)
    elif case["kind"] == "macro":
        out = core.api_eval(case["runner"], case["src"], MV.cel_env(MV.dec_env(case["outer"])))
        exp = case["expected"]
        ok = out[0] == "E" if exp == "E" else (out[0] == "V" and MV.same_value_ignoring_class(out[1], MV.canon_of(MV.dec(exp))))
        return ok, f"{case['src']!r} -> {out}; expected {exp}"
    else:
        class C:  # minimal ctx for declaration_cases
            def mine(self, i):
                return i == case["index"]

        declaration_cases(acc, C())
    return not acc.violations, "\n".join(v["what"] for v in acc.violations) or "held"
