"""
Pass-through recording wrappers.

wrap_method(cls, name, observer) replaces an attribute that already exists in the
class __dict__ with a wrapper that calls the original, reports
(cls, name, args, kwargs, result | None, exception | None) to the observer and
returns / re-raises unchanged.  __name__, __qualname__ and __module__ are kept
(the transpiler prints module.qualname of whatever sits in the function table).
No attribute is ever *added* to a class: defining a dunder a class merely inherits
would change Python's operator dispatch and so alter what is observed.
"""

from __future__ import annotations

import functools
from typing import Any, Callable, Dict, List, Tuple

_installed: List[Tuple[Any, str, Any]] = []
counts: Dict[str, int] = {}


def wrap_method(cls: type, name: str, observer: Callable[..., None]) -> bool:
    if name not in cls.__dict__:
        return False
    orig = cls.__dict__[name]
    key = f"{cls.__name__}.{name}"
    counts.setdefault(key, 0)

    def wrapper(*args: Any, **kwargs: Any):
        counts[key] += 1
        try:
            res = orig(*args, **kwargs)
        except BaseException as ex:
            observer(cls, name, args, kwargs, None, ex)
            raise
        observer(cls, name, args, kwargs, res, None)
        return res

    for attr in ("__name__", "__qualname__", "__module__", "__doc__"):
        try:
            setattr(wrapper, attr, getattr(orig, attr))
        except Exception:
            pass
    wrapper.__wrapped__ = orig  # type: ignore[attr-defined]
    setattr(cls, name, wrapper)
    _installed.append((cls, name, orig))
    return True


def wrap_function(module: Any, name: str, observer: Callable[..., None], tables: List[Dict[str, Any]] = ()):
    """Wrap a module-level function; also replace it in the given lookup tables (dict values identical to it)."""
    orig = getattr(module, name)
    key = f"{module.__name__}.{name}"
    counts.setdefault(key, 0)

    def wrapper(*args: Any, **kwargs: Any):
        counts[key] += 1
        try:
            res = orig(*args, **kwargs)
        except BaseException as ex:
            observer(module, name, args, kwargs, None, ex)
            raise
        observer(module, name, args, kwargs, res, None)
        return res

    for attr in ("__name__", "__qualname__", "__module__", "__doc__"):
        try:
            setattr(wrapper, attr, getattr(orig, attr))
        except Exception:
            pass
    wrapper.__wrapped__ = orig  # type: ignore[attr-defined]
    setattr(module, name, wrapper)
    _installed.append((module, name, orig))
    for tbl in tables:
        for k, v in list(tbl.items()):
            if v is orig:
                tbl[k] = wrapper
                _installed.append((tbl, k, orig))
    return wrapper


def remove_all() -> None:
    while _installed:
        holder, name, orig = _installed.pop()
        if isinstance(holder, dict):
            holder[name] = orig
        else:
            setattr(holder, name, orig)
