"""
Pristine-process reference server.

A helper process imports celpy/xlate and nothing else (it never creates an Environment);
for every request it fork()s a child that performs exactly one
Environment -> compile -> program -> evaluate and sends the canonical outcome back through
a pipe, then exits.  That is "the same evaluation performed alone in a fresh process" at
a few milliseconds instead of the ~0.4 s of a new interpreter.  The shortcut is itself
monitored: C05 repeats a sample of requests in a genuinely fresh `python -c` process.
"""

from __future__ import annotations

import json
import os
import subprocess
import sys
from typing import Any, Dict

ANNOTATION_TYPES = ["IntType", "StringType", "MapType", "BoolType", "ListType", "DoubleType"]


def perform(req: Dict[str, Any]):
    """Executed in the pristine child (and, for the fresh-process cross-check, in a new interpreter)."""
    import logging

    logging.disable(logging.CRITICAL)
    import celpy
    from verifmon import core, mv as MV

    core._celpy = celpy  # do NOT pre-create a CompiledRunner environment here: pristine means pristine
    ann = None
    if req.get("annotations"):
        ann = {k: getattr(celpy.celtypes, v) for k, v in req["annotations"].items()}
    funcs = None
    if req.get("functions"):
        from verifmon import hostfuncs

        funcs = {"size": hostfuncs.size, "contains": hostfuncs.contains} if req["functions"] == "override" else [hostfuncs.h1, hostfuncs.h2]
    bindings = MV.cel_env(MV.dec_env(req.get("bindings", {})))
    return core.api_eval(req["runner"], req["src"], bindings, annotations=ann, package=req.get("package"), functions=funcs)


def serve():
    import logging

    logging.disable(logging.CRITICAL)
    import celpy  # noqa: F401
    import celpy.c7nlib  # noqa: F401
    from verifmon import core, hostfuncs, mv  # noqa: F401  (harness modules only; imported once, not per child)
    import gc

    gc.disable()  # children are short-lived; avoid copy-on-write storms from collections

    # Optional warm-up: "<runner>" on the command line makes this helper create (and drop) one
    # Environment of that runner class before serving.  A pristine process that evaluates with
    # runner R builds exactly this parser as its first step, so the forked children are in the
    # state a fresh process reaches right after `Environment(runner_class=R)` -- minus the ~150 ms
    # grammar compilation.  The equivalence is cross-checked against brand-new interpreters.
    if len(sys.argv) > 1 and sys.argv[1] in ("I", "C"):
        celpy.Environment(runner_class=celpy.CompiledRunner if sys.argv[1] == "C" else celpy.InterpretedRunner)

    out = sys.stdout
    for line in sys.stdin:
        line = line.strip()
        if not line:
            continue
        req = json.loads(line)
        r, w = os.pipe()
        pid = os.fork()
        if pid == 0:
            os.close(r)
            dn = os.open(os.devnull, os.O_WRONLY)
            os.dup2(dn, 1)  # the parser prints debug dumps to stdout; keep the protocol channel clean
            os.dup2(dn, 2)
            try:
                res = perform(req)
            except BaseException as ex:  # noqa
                res = ["HARNESS", type(ex).__name__, str(ex)[:200]]
            with os.fdopen(w, "w") as f:
                f.write(json.dumps(res))
            os._exit(0)
        os.close(w)
        with os.fdopen(r) as f:
            data = f.read()
        os.waitpid(pid, 0)
        out.write((data or json.dumps(["HARNESS", "no-data", ""])) + "\n")
        out.flush()


class Zygote:
    """One helper per runner class (see the warm-up note in serve())."""

    def __init__(self, share_dir=None):
        self.z = {r: _Zygote(r) for r in "IC"}
        self.requests = 0
        self.cache = {}
        # workers of one check run share their reference outcomes through files (the run's
        # output directory is wiped by the orchestrator before the workers start)
        self.share_dir = share_dir
        if share_dir:
            os.makedirs(share_dir, exist_ok=True)

    def ask(self, req):
        """The reference outcome is a pure function of the request: memoise it."""
        key = json.dumps(req, sort_keys=True)
        hit = self.cache.get(key)
        if hit is None and self.share_dir:
            import hashlib

            path = os.path.join(self.share_dir, hashlib.blake2b(key.encode(), digest_size=12).hexdigest() + ".json")
            try:
                with open(path) as f:
                    stored = json.load(f)
                if stored[0] == key:
                    hit = self.cache[key] = stored[1]
            except (OSError, ValueError):
                pass
        if hit is None:
            self.requests += 1
            hit = self.cache[key] = self.z[req["runner"]].ask(req)
            if self.share_dir:
                tmp = path + f".{os.getpid()}.tmp"
                with open(tmp, "w") as f:
                    json.dump([key, hit], f)
                os.replace(tmp, path)
        return hit

    def close(self):
        for z in self.z.values():
            z.close()


class _Zygote:
    def __init__(self, warm=""):
        env = dict(os.environ)
        self.p = subprocess.Popen([sys.executable, "-m", "verifmon.zygote"] + ([warm] if warm else []), stdin=subprocess.PIPE, stdout=subprocess.PIPE, stderr=subprocess.DEVNULL, text=True, env=env, bufsize=1)
        self.requests = 0

    def ask(self, req: Dict[str, Any]):
        self.requests += 1
        self.p.stdin.write(json.dumps(req) + "\n")
        self.p.stdin.flush()
        line = self.p.stdout.readline()
        if not line:
            raise RuntimeError("zygote died")
        return json.loads(line)

    def close(self):
        try:
            self.p.stdin.close()
            self.p.wait(timeout=10)
        except Exception:
            self.p.kill()


def fresh_process(req: Dict[str, Any]):
    """The same request in a brand-new interpreter (cross-check of the fork shortcut)."""
    code = "import sys, json\nfrom verifmon import zygote\nprint(json.dumps(zygote.perform(json.loads(sys.stdin.read()))))\n"
    p = subprocess.run([sys.executable, "-c", code], input=json.dumps(req), capture_output=True, text=True, env=dict(os.environ), timeout=120)
    last = [ln for ln in p.stdout.strip().splitlines() if ln.startswith("[")]
    if not last:
        return ["HARNESS", "fresh-process-failed", p.stderr[-200:]]
    return json.loads(last[-1])


if __name__ == "__main__":
    serve()
