#!/venv/bin/python
"""Re-run the checks against a kept seeded change and update its meta.json.

  tools/seed_recheck.py <seeded/ID> <PROP>[,<PROP>...] ["history note"]
"""
import json
import os
import subprocess
import sys

HERE = os.path.dirname(os.path.dirname(os.path.abspath(__file__)))


def main():
    d = sys.argv[1].rstrip("/")
    props = sys.argv[2]
    note = sys.argv[3] if len(sys.argv) > 3 else None
    r = subprocess.run([os.path.join(HERE, "tools", "try_seed.py"), os.path.join(d, "patch.diff"), props, "--skip-tests"], capture_output=True, text=True)
    print(r.stdout.strip())
    meta_p = os.path.join(d, "meta.json")
    meta = json.load(open(meta_p))
    res = meta.setdefault("check_results_quick_seed0", {})
    for ln in r.stdout.splitlines():
        if ln.startswith("check "):
            res[ln.split()[1]] = "caught" if "CAUGHT" in ln else ("inconclusive" if "INCONCLUSIVE" in ln else "missed")
    if note:
        meta["history"] = note
    json.dump(meta, open(meta_p, "w"), indent=1)
    print(d, res)


if __name__ == "__main__":
    main()
