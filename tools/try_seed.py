#!/venv/bin/python
"""
Run checks against a property-breaking patch in a scratch worktree (never in /repo).

  tools/try_seed.py <patch.diff> <PROP>[,<PROP>...] [--demo demo.py] [--tier quick] [--seeds 0,1]

Steps: git worktree of /repo HEAD under /tmp, git apply, repository test-suite with
PYTHONPATH=<worktree>/src, optional demo (expected to fail), then ./check <PROP> with
VERIF_REPO=<worktree>; prints one summary line per step and removes the worktree.
"""

import argparse
import os
import subprocess
import sys
import tempfile

HERE = os.path.dirname(os.path.dirname(os.path.abspath(__file__)))


def sh(cmd, **kw):
    return subprocess.run(cmd, shell=True, capture_output=True, text=True, **kw)


def main():
    ap = argparse.ArgumentParser()
    ap.add_argument("patch")
    ap.add_argument("props")
    ap.add_argument("--demo")
    ap.add_argument("--tier", default="quick")
    ap.add_argument("--seeds", default="0")
    ap.add_argument("--skip-tests", action="store_true")
    args = ap.parse_args()
    wt = tempfile.mkdtemp(prefix="seedtry_", dir="/tmp")
    os.rmdir(wt)
    r = sh(f"git -C /repo worktree add -q --detach {wt} HEAD")
    if r.returncode:
        print("worktree failed", r.stderr)
        return 2
    rc = 0
    try:
        r = sh(f"git -C {wt} apply {os.path.abspath(args.patch)}")
        if r.returncode:
            print("APPLY FAILED:", r.stderr.strip()[:300])
            return 2
        env = dict(os.environ, PYTHONPATH=f"{wt}/src")
        if not args.skip_tests:
            r = sh(f"cd {wt} && /venv/bin/python -m pytest -q -p no:cacheprovider tests 2>&1 | tail -1", env=env)
            print("repo tests with patch:", r.stdout.strip())
        if args.demo:
            # demos may locate the tree relative to their own file (<tree>/_seed/demo.py): run a copy from inside the worktree
            os.makedirs(f"{wt}/_seed", exist_ok=True)
            import shutil

            shutil.copy(os.path.abspath(args.demo), f"{wt}/_seed/demo.py")
            r = sh(f"cd {wt} && /venv/bin/python {wt}/_seed/demo.py > /dev/null 2>&1; echo $?", env=env)
            print("demo exit status with patch (expected non-zero):", r.stdout.strip())
        for prop in args.props.split(","):
            for seed in args.seeds.split(","):
                env2 = dict(os.environ, VERIF_REPO=wt, VERIF_SEED=seed, VERIF_SCRATCH=wt + "_scratch")
                r = sh(f"cd {HERE} && ./check {prop} --tier {args.tier}", env=env2)
                lines = r.stdout.splitlines()
                viol = [ln for ln in lines if ln.startswith("VIOLATION")]
                mech = [ln.strip()[:230] for ln in lines if ln.strip().startswith("mechanism=")]
                status = {0: "HELD (missed)", 1: "CAUGHT", 2: "INCONCLUSIVE"}.get(r.returncode, str(r.returncode))
                print(f"check {prop} seed={seed}: exit {r.returncode} {status}; {len(viol)} violation(s)")
                for m in mech[:4]:
                    print("   ", m)
                if r.returncode == 2:
                    for ln in lines[-4:]:
                        print("   ", ln[:200])
                if r.returncode != 1:
                    rc = 1
    finally:
        sh(f"git -C /repo worktree remove --force {wt}; rm -rf {wt}_scratch")
    return rc


if __name__ == "__main__":
    sys.exit(main())
