#!/venv/bin/python
"""Regression over every kept seeded change: apply each seeded/<ID>/patch.diff in a scratch worktree and run the
quick check of its property (VERIF_REPO=<worktree>, VERIF_SCRATCH=<worktree>_scratch); expect exit 1.

  tools/run_seeded.py [--jobs 3] [--only C05,C12] [--seed 0] [--update]
--update rewrites check_results_quick_seed0 in each meta.json (seed 0 only).
"""
import argparse
import concurrent.futures as cf
import glob
import json
import os
import subprocess
import sys

HERE = os.path.dirname(os.path.dirname(os.path.abspath(__file__)))


def one(d, seed):
    meta = json.load(open(os.path.join(d, "meta.json")))
    prop = meta["property"]
    r = subprocess.run(
        [os.path.join(HERE, "tools", "try_seed.py"), os.path.join(d, "patch.diff"), prop, "--skip-tests", "--seeds", str(seed)], capture_output=True, text=True
    )
    line = next((ln for ln in r.stdout.splitlines() if ln.startswith("check ")), "no result: " + r.stdout[-200:])
    return os.path.basename(d), prop, line


def main():
    ap = argparse.ArgumentParser()
    ap.add_argument("--jobs", type=int, default=3)
    ap.add_argument("--only", default="")
    ap.add_argument("--seed", type=int, default=0)
    ap.add_argument("--update", action="store_true")
    args = ap.parse_args()
    only = set(filter(None, args.only.split(",")))
    dirs = [d for d in sorted(glob.glob(os.path.join(HERE, "seeded", "*"))) if not only or os.path.basename(d).split("-")[0] in only]
    bad = 0
    with cf.ThreadPoolExecutor(args.jobs) as ex:
        for name, prop, line in ex.map(lambda d: one(d, args.seed), dirs):
            caught = "CAUGHT" in line
            bad += not caught
            print(f"{name:10s} {prop} {'caught' if caught else 'NOT CAUGHT: ' + line}", flush=True)
            if args.update and args.seed == 0:
                mp = os.path.join(HERE, "seeded", name, "meta.json")
                meta = json.load(open(mp))
                meta.setdefault("check_results_quick_seed0", {})[prop] = "caught" if caught else "missed"
                json.dump(meta, open(mp, "w"), indent=1)
    print(f"{len(dirs) - bad}/{len(dirs)} seeded changes caught by the quick check of their property (seed {args.seed})")
    return 1 if bad else 0


if __name__ == "__main__":
    sys.exit(main())
