#!/venv/bin/python
"""
Generate the hand-written mutants in /verif/mutants/*.patch from (property, name, file, old, new) entries.
Each `old` must occur exactly once in the file.  Patches are produced with `git diff` in a scratch worktree.
"""

import os
import subprocess
import sys
import tempfile

HERE = os.path.dirname(os.path.dirname(os.path.abspath(__file__)))
CT = "src/celpy/celtypes.py"
EV = "src/celpy/evaluation.py"
CP = "src/celpy/celparser.py"
GR = "src/celpy/cel.lark"
AD = "src/celpy/adapter.py"
MN = "src/celpy/__main__.py"
C7 = "src/celpy/c7nlib.py"
XL = "src/xlate/c7n_to_cel.py"
IN = "src/celpy/__init__.py"

MUTANTS = [
    # C01
    ("C01", "int64-upper-bound-inclusive", CT, "        if -(2**63) <= result_value < 2**63:", "        if -(2**63) <= result_value <= 2**63:"),
    ("C01", "int-floor-division", CT, "        go_div = self_sign * other_sign * (abs(self) // abs(other))\n        return IntType(go_div)\n\n    __floordiv__", "        go_div = int(self) // int(other)\n        return IntType(go_div)\n\n    __floordiv__"),
    ("C01", "rmod-divisor-sign", CT, "        left_sign = -1 if other < IntType(0) else +1", "        left_sign = -1 if self < IntType(0) else +1"),
    ("C01", "uint-lower-bound", CT, "        if 0 <= result_value < 2**64:", "        if -1 <= result_value < 2**64:"),
    ("C01", "double-div-zero-sign", CT, "        sign = copysign(1.0, dividend) * copysign(1.0, divisor)", "        sign = copysign(1.0, dividend)"),
    # C02
    ("C02", "logical-or-error-false-branch", CT, "            return y  # whatever || true == true\n        else:\n            return x  # whatever || false == whatever", "            return y  # whatever || true == true\n        else:\n            return y  # whatever || false == whatever"),
    ("C02", "interp-all-no-eval_error", EV, "                    eval_error(\"no such overload\", TypeError)(\n                        celpy.celtypes.logical_and\n                    ),", "                    celpy.celtypes.logical_and,"),
    ("C02", "compiled-exists-any", EV, "                eval_error(\"no such overload\", TypeError)(celpy.celtypes.logical_or),", "                celpy.celtypes.logical_or,"),
    # C03
    ("C03", "result-drops-IndexError", EV, "        OverflowError,\n        IndexError,\n        NameError,\n        AttributeError,\n    ) as ex:", "        OverflowError,\n        NameError,\n        AttributeError,\n    ) as ex:"),
    ("C03", "compiled-filter-keeps-on-error", EV, "        if isinstance(f, CELEvalError):\n            return f\n        if bool(f):", "        if bool(f):"),
    ("C03", "phase1-relation-operand-order", EV, "            func_name = self.func_name(op_name)\n            template = Template(\"${func_name}(${left}, ${right})\")\n            tree.transpiled = template.substitute(\n                func_name=func_name,\n                left=cast(TranspilerTree, left_op.children[0]).transpiled,\n                right=right_tree.transpiled,\n            )\n\n    def addition(", "            func_name = self.func_name(op_name)\n            template = Template(\"${func_name}(${left}, ${right})\")\n            tree.transpiled = template.substitute(\n                func_name=func_name,\n                right=cast(TranspilerTree, left_op.children[0]).transpiled,\n                left=right_tree.transpiled,\n            ) if op_name == \"_>=_\" else template.substitute(\n                func_name=func_name,\n                left=cast(TranspilerTree, left_op.children[0]).transpiled,\n                right=right_tree.transpiled,\n            )\n\n    def addition("),
    # C04
    ("C04", "member_index-no-IndexError", EV, "        except IndexError as ex:\n            self.logger.debug(\"%s(%s, %s) --> %s\", func.__name__, member, index, ex)\n            value = CELEvalError(\"invalid_argument\", ex.__class__, ex.args, tree=tree)\n            value.__cause__ = ex\n            return value\n", ""),
    ("C04", "multiplication-no-ZeroDivision", EV, "            except ZeroDivisionError as ex:\n                self.logger.debug(\"%s(%s, %s) --> %s\", func.__name__, left, right, ex)\n                value = CELEvalError(\n                    \"modulus or divide by zero\", ex.__class__, ex.args, tree=tree\n                )\n                value.__cause__ = ex\n                return value\n", ""),
    ("C04", "parse-error-no-line", CP, "            raise CELParseError(message, *ex.args, line=ex.line, column=ex.column)", "            raise CELParseError(message, *ex.args, line=None, column=ex.column)"),
    ("C04", "function_eval-no-AttributeError", EV, "        except (TypeError, AttributeError) as ex:\n            self.logger.debug(\"function_eval(%r, %s) --> %s\", name_token, exprlist, ex)", "        except TypeError as ex:\n            self.logger.debug(\"function_eval(%r, %s) --> %s\", name_token, exprlist, ex)"),
    # C05
    ("C05", "activation-clone-shares-identifiers", EV, "        clone.identifiers = self.identifiers.clone()", "        clone.identifiers = self.identifiers"),
    ("C05", "referent-clone-shallow", EV, "        new.container = self.container.clone() if self.container is not None else None", "        new.container = self.container"),
    ("C05", "parser-singleton-first-class", CP, "        if parser is not None and parser.options.tree_class is not tree_class:\n            parser = CELParser.PARSERS.get(tree_class)", "        if parser is not None and parser.options.tree_class is not tree_class:\n            pass"),
    # C06
    ("C06", "conditionalor-right-recursive", GR, "conditionalor  : [conditionalor \"||\"] conditionaland", "conditionalor  : conditionaland [\"||\" conditionalor]"),
    ("C06", "dump-unary-without-space", CP, "            self.stack.append(f\"{left} {right}\")\n\n    def unary_not", "            self.stack.append(f\"{right}\")\n\n    def unary_not"),
    ("C06", "ambiguous-literals-dropped", CP, "                lexer_callbacks={\"IDENT\": self.ambiguous_literals},", "                lexer_callbacks={},"),
    ("C06", "dump-index-as-call", CP, "        self.stack.append(f\"{left}[{right}]\")", "        self.stack.append(f\"{left}({right})\")"),
    # C07
    ("C07", "hex-escape-base-10", EV, "            elif match[:2] == r\"\\x\":\n                expanded = chr(int(match[2:], 16))", "            elif match[:2] == r\"\\x\":\n                expanded = chr(int(match[2:], 10)) if match[2:].isdigit() else chr(int(match[2:], 16))"),
    ("C07", "escapes-missing-v", EV, "    \"\\\\v\": \"\\v\",\n", ""),
    ("C07", "bytes-octal-as-decimal", EV, "            elif match[:1] == \"\\\\\" and len(match) == 4:\n                yield int(match[1:], 8)", "            elif match[:1] == \"\\\\\" and len(match) == 4:\n                yield int(match[1:], 10) % 256"),
    # C08
    ("C08", "list-eq-ignores-length", CT, "        result_value = len(self) == len(other) and reduce(\n            logical_and,  # type: ignore [arg-type]\n            (equal(item_s, item_o) for item_s, item_o in zip(self, other)),", "        result_value = reduce(\n            logical_and,  # type: ignore [arg-type]\n            (equal(item_s, item_o) for item_s, item_o in zip(self, other)),"),
    ("C08", "map-ne-singleton-returns-eq", CT, "            return cast(\n                bool, self[k] != other[k]\n            )  # Instead of Union[BoolType, TypeError]", "            return cast(\n                bool, self[k] == other[k]\n            )  # Instead of Union[BoolType, TypeError]"),
    ("C08", "bool_le-uses-lt", EV, "    return boolean(operator.le)(a, b)", "    return boolean(operator.lt)(a, b)"),
    ("C08", "int-ge-is-gt", CT, "    def __ge__(self, other: Any) -> bool:\n        return super().__ge__(other)", "    def __ge__(self, other: Any) -> bool:\n        return super().__gt__(other)"),
    # C09
    ("C09", "exists_one-at-least-one", EV, "                return celpy.celtypes.BoolType(count == 1)\n\n            # Not formally part of CEL...\n            elif method_name_token.value == \"reduce\":", "                return celpy.celtypes.BoolType(count >= 1)\n\n            # Not formally part of CEL...\n            elif method_name_token.value == \"reduce\":"),
    ("C09", "size-utf8-length", EV, "    result_value = celpy.celtypes.IntType(len(sized_container))", "    result_value = celpy.celtypes.IntType(len(sized_container.encode(\"utf-8\")) if isinstance(sized_container, str) else len(sized_container))"),
    ("C09", "mapinits-keeps-last-duplicate", EV, "            if key in result_value:\n                raise ValueError(f\"Duplicate key {key!r}\")\n            result_value[key] = value\n\n        return result_value", "            result_value[key] = value\n\n        return result_value"),
    ("C09", "startsWith-is-contains", EV, "    return celpy.celtypes.BoolType(string.startswith(fragment))", "    return celpy.celtypes.BoolType(fragment in string)"),
    # C10
    ("C10", "int-from-double-rounds", CT, "        elif isinstance(source, (float, DoubleType)):\n            convert = int64(trunc)\n        elif isinstance(source, TimestampType):\n            convert = int64(lambda src: src.timestamp())", "        elif isinstance(source, (float, DoubleType)):\n            convert = int64(round)\n        elif isinstance(source, TimestampType):\n            convert = int64(lambda src: src.timestamp())"),
    ("C10", "string-from-bytes-replace", CT, "            return super().__new__(cls, source.decode(\"utf\"))", "            return super().__new__(cls, source.decode(\"utf\", errors=\"replace\"))"),
    ("C10", "duration-str-seconds-attr", CT, "        return \"{0}s\".format(int(self.total_seconds()))", "        return \"{0}s\".format(int(self.seconds))"),
    # C11
    ("C11", "getDayOfWeek-iso", CT, "        return IntType(self.astimezone(new_tz).isoweekday() % 7)", "        return IntType(self.astimezone(new_tz).isoweekday())"),
    ("C11", "getMonth-1-based", CT, "        return IntType(self.astimezone(new_tz).month - 1)", "        return IntType(self.astimezone(new_tz).month)"),
    ("C11", "tz-offset-ignores-sign", CT, "        offset_min = (int(hh) * 60 + int(mm)) * (-1 if sign == \"-\" else +1)", "        offset_min = (int(hh) * 60 + int(mm))"),
    ("C11", "minutes-scale-3600", CT, "        \"m\": 60.0,", "        \"m\": 60.0 * 60.0,"),
    # C12
    ("C12", "nested-activation-no-parent", EV, "            parent=based_on.identifiers if based_on else None\n        )", "            parent=None\n        )"),
    # C13
    ("C13", "int-add-native", CT, "    @int64\n    def __add__(self, other: Any) -> \"IntType\":\n        return IntType(super().__add__(cast(IntType, other)))", "    @int64\n    def __add__(self, other: Any) -> \"IntType\":\n        return super().__add__(cast(IntType, other))"),
    ("C13", "function_size-native-int", EV, "    result_value = celpy.celtypes.IntType(len(sized_container))", "    result_value = len(sized_container)"),
    ("C13", "boolean-returns-python-bool", EV, "        return celpy.celtypes.BoolType(bool(result_value))\n\n    return bool_function", "        return bool(result_value)\n\n    return bool_function"),
    # C14
    ("C14", "method_eval-drops-receiver", EV, "            return function(object, *list_exprlist)", "            return function(*list_exprlist) if method_ident.value == \"h2\" else function(object, *list_exprlist)"),
    ("C14", "functions-chainmap-order", EV, "            self.functions = collections.ChainMap(\n                cast(dict[str, CELFunction], functions), base_functions\n            )", "            self.functions = collections.ChainMap(\n                base_functions, cast(dict[str, CELFunction], functions)\n            )"),
    # C15
    ("C15", "json-int-before-bool", AD, "    if isinstance(document, bool):\n        return celtypes.BoolType(document)\n    elif isinstance(document, float):\n        return celtypes.DoubleType(document)\n    elif isinstance(document, int):\n        return celtypes.IntType(document)", "    if isinstance(document, float):\n        return celtypes.DoubleType(document)\n    elif isinstance(document, int) and not (isinstance(document, bool) and document):\n        return celtypes.IntType(document)\n    elif isinstance(document, bool):\n        return celtypes.BoolType(document)"),
    ("C15", "bytes-hex-not-base64", AD, "            return base64.b64encode(cel_object).decode(\"ASCII\")", "            return base64.b16encode(cel_object).decode(\"ASCII\")"),
    # C16 (interpreter-side sharing)
    ("C16", "compiled-exec-in-module-globals", EV, "        evaluation_globals = dict(celpy.evaluation.result.__globals__)", "        evaluation_globals = celpy.evaluation.result.__globals__"),
    # C17
    ("C17", "intersect-uses-union", C7, "    return celtypes.BoolType(bool(set(left) & set(right)))", "    return celtypes.BoolType(bool(set(left) | set(right)))"),
    ("C17", "cidr-subnet-of", C7, "            return self.supernet_of(other)  # type: ignore[no-untyped-call]", "            return self.subnet_of(other)  # type: ignore[no-untyped-call]"),
    ("C17", "context-not-reset", C7, "        global C7N\n        C7N = cast(\"C7NContext\", None)\n        return\n", "        if exc_type is None:\n            global C7N\n            C7N = cast(\"C7NContext\", None)\n        return\n"),
    ("C17", "key-returns-last-match", C7, "        return cast(celtypes.MapType, next(matches)).get(value)", "        return cast(celtypes.MapType, list(matches)[-1]).get(value)"),
    # C18
    ("C18", "or-joined-with-and-in-not", XL, "                details = \" || \".join(C7N_Rewriter.group(c, \"?\") for c in clauses)", "                details = \" || \".join(clauses)"),
    ("C18", "and-group-without-or", XL, "                details = \" && \".join(C7N_Rewriter.group(c, \"?\", \"||\") for c in clauses)\n                return f\"({details})\" if level > 1 else details\n            else:", "                details = \" && \".join(C7N_Rewriter.group(c, \"?\") for c in clauses)\n                return f\"({details})\" if level > 1 else details\n            else:"),
    # C19
    ("C19", "gt-ge-swapped", XL, "        \"gt\": \"{0} > {1}\",", "        \"gt\": \"{0} >= {1}\","),
    ("C19", "ni-without-negation", XL, "        \"ni\": \"! {1}.contains({0})\",\n        \"not-in\"", "        \"ni\": \"{1}.contains({0})\",\n        \"not-in\""),
    ("C19", "hours-unit-360", XL, "        units = [(24 * 60 * 60, \"d\"), (60 * 60, \"h\"), (60, \"m\"), (1, \"s\")]", "        units = [(24 * 60 * 60, \"d\"), (60 * 6, \"h\"), (60, \"m\"), (1, \"s\")]"),
    ("C19", "swap-not-swapping", XL, "            \"swap\": lambda sentinel, value: (value, sentinel),", "            \"swap\": lambda sentinel, value: (sentinel, value),"),
    # C20
    ("C20", "boolean-false-exits-0", MN, "                    summary = 0 if result_value else 1", "                    summary = 0 if result_value else 0"),
    ("C20", "stream-last-status", MN, "            summary = max(\n                summary,\n                process_json_doc(", "            summary = (lambda a, b: b)(\n                summary,\n                process_json_doc("),
    ("C20", "parse-error-returns-2", MN, "            env.cel_parser.error_text(ex.args[0], ex.line, ex.column), file=sys.stderr\n        )\n        return 1", "            env.cel_parser.error_text(ex.args[0], ex.line, ex.column), file=sys.stderr\n        )\n        return 2"),
]


def main():
    out = os.path.join(HERE, "mutants")
    os.makedirs(out, exist_ok=True)
    wt = tempfile.mkdtemp(prefix="mutgen_", dir="/tmp")
    os.rmdir(wt)
    subprocess.check_call(["git", "-C", "/repo", "worktree", "add", "-q", "--detach", wt, "HEAD"])
    bad = 0
    try:
        for prop, name, path, old, new in MUTANTS:
            full = os.path.join(wt, path)
            src = open(full).read()
            if src.count(old) != 1:
                print(f"SKIP {prop} {name}: anchor occurs {src.count(old)} times")
                bad += 1
                continue
            open(full, "w").write(src.replace(old, new))
            diff = subprocess.run(["git", "-C", wt, "diff"], capture_output=True, text=True).stdout
            open(os.path.join(out, f"{prop}-{name}.patch"), "w").write(diff)
            subprocess.check_call(["git", "-C", wt, "checkout", "-q", "--", "."])
    finally:
        subprocess.call(["git", "-C", "/repo", "worktree", "remove", "--force", wt])
    print(f"{len(MUTANTS) - bad} patches written to {out}, {bad} skipped")


if __name__ == "__main__":
    main()
