#!/venv/bin/python
"""Regenerate the generated tables of DESIGN.md (between <!-- BEGIN:x --> / <!-- END:x --> markers)."""
import glob
import json
import os
import re
import subprocess

HERE = os.path.dirname(os.path.dirname(os.path.abspath(__file__)))


def findings_tables():
    kf = json.load(open(os.path.join(HERE, "known_findings.json")))["findings"]
    out = ["### 5.1 Defects repaired (`fix:` commits in /repo; `status: fixed` entries suppress nothing)", "", "| property | commit | what failed |", "|---|---|---|"]
    for f in kf:
        if f["status"] == "fixed":
            out.append(f"| {f['property']} | `{f['commit']}` | {f['what']} |")
    out += ["", "### 5.2 Known findings (genuine defects recorded, not repaired; the check prints `KNOWN-FINDING:` and exits 0)", "", "| property | id | what fails | example |", "|---|---|---|---|"]
    for f in kf:
        if f["status"] == "known":
            out.append(f"| {f['property']} | `{f['id']}` | {f['what']} | `{f.get('example', '')[:90]}` |")
    return "\n".join(out)


def seeded_table():
    out = ["| seeded change | property | what it needs to manifest (from the author's notes) | quick check, seed 0 |", "|---|---|---|---|"]
    for d in sorted(glob.glob(os.path.join(HERE, "seeded", "*"))):
        m = json.load(open(os.path.join(d, "meta.json")))
        need = re.sub(r"\s+", " ", m.get("needs_to_manifest", ""))[:260].replace("|", "/")
        res = ", ".join(f"{k} {v}" for k, v in m.get("check_results_quick_seed0", {}).items())
        if m.get("history"):
            res += " (" + m["history"] + ")"
        out.append(f"| `seeded/{os.path.basename(d)}` | {m['property']} | {need} | {res} |")
    return "\n".join(out)


def mutants_table():
    out = ["| mutant (mutants/*.patch) | caught by |", "|---|---|"]
    for pth in sorted(glob.glob(os.path.join(HERE, "mutants", "*.patch"))):
        name = os.path.basename(pth)[:-6]
        out.append(f"| `{name}` | {name.split('-')[0]} quick |")
    return "\n".join(out)


def main():
    p = os.path.join(HERE, "DESIGN.md")
    s = open(p).read()
    for key, text in (("FINDINGS", findings_tables()), ("SEEDED", seeded_table()), ("MUTANTS", mutants_table())):
        a, b = f"<!-- BEGIN:{key} -->", f"<!-- END:{key} -->"
        i, j = s.index(a) + len(a), s.index(b)
        s = s[:i] + "\n" + text + "\n" + s[j:]
    open(p, "w").write(s)


if __name__ == "__main__":
    main()
