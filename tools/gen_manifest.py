#!/venv/bin/python
"""Regenerate /verif/MANIFEST.json from the property modules that exist."""

import importlib
import json
import os
import sys

HERE = os.path.dirname(os.path.dirname(os.path.abspath(__file__)))
sys.path.insert(0, HERE)

ALL = [f"C{n:02d}" for n in range(1, 21)]
BASELINE = "cd /repo && /venv/bin/python -m pytest -ra -q -p no:cacheprovider --timeout=900 --continue-on-collection-errors"


def main():
    checks, na = [], []
    for pid in ALL:
        path = os.path.join(HERE, "verifmon", "props", pid.lower() + ".py")
        if not os.path.exists(path):
            na.append({"property_id": pid, "reason": "check not built yet (work in progress; runtime monitoring applies, see DESIGN.md section 4)"})
            continue
        mod = importlib.import_module(f"verifmon.props.{pid.lower()}")
        if not getattr(mod, "READY", False):
            na.append({"property_id": pid, "reason": "check under construction (findings on the unchanged tree not yet dispositioned); runtime monitoring applies, see DESIGN.md section 4"})
            continue
        if getattr(mod, "NOT_CLAIMED", None):
            na.append({"property_id": pid, "reason": mod.NOT_CLAIMED})
            continue
        checks.append(
            {
                "property_id": pid,
                "quick_cmd": f"./check {pid} --tier quick",
                "thorough_cmd": f"./check {pid} --tier thorough",
                "evidence_file": f"/verif/evidence/{pid}.json",
                "replay_cmd_template": f"./check {pid} --replay {{path}}",
                "engine": "verifmon",
                "level_claimed": {
                    "category": mod.LEVEL,
                    "text": getattr(mod, "LEVEL_TEXT", "Runtime monitoring: the real library is executed on generated and adversarial workloads while monitors at the API boundary compare every observed outcome with a deterministic oracle; the claim is 'held on the executions observed', with counts of what was observed in the evidence file."),
                    "design_ref": f"DESIGN.md section 4, {pid}",
                },
                "level_note": getattr(mod, "NOTE", "; ".join(mod.ASSUMPTIONS)),
                "technique": getattr(mod, "TECHNIQUE", "runtime monitoring: generated workload + oracle over observed outcomes"),
            }
        )
    manifest = {
        "version": 1,
        "setup_cmd": "/venv/bin/python -c \"import sys; sys.path.insert(0, '/repo/src'); import celpy, xlate.c7n_to_cel; print('celpy from', celpy.__file__)\"",
        "hooks": {
            "guard": "CELPY_VERIF",
            "enable": "no source hooks: all instrumentation is attached from the harness (wrappers on class attributes and function tables, sys.monitoring); checks run /venv/bin/python with PYTHONPATH=$VERIF_REPO/src (default /repo/src) so the working tree is what is executed",
            "baseline_off_cmd": BASELINE,
            "source_commits": [],
            "add_only": True,
        },
        "engines": [
            {
                "name": "verifmon",
                "path": "/verif/verifmon",
                "serves_properties": [c["property_id"] for c in checks],
                "kind_free_text": "runtime monitors (API-boundary outcome recorders, reference-model and differential oracles, history/trace checkers, cooperative thread scheduler) driven by seeded workload generators; orchestrated by /verif/check",
            }
        ],
        "checks": checks,
        "not_applicable": na,
        "notes": "Exit codes: 0 held on everything observed (KNOWN-FINDING lines for findings listed in known_findings.json), 1 VIOLATION, 2 INCONCLUSIVE (a monitor saw nothing or the harness failed). VERIF_SEED and VERIF_TIER are honoured.",
    }
    with open(os.path.join(HERE, "MANIFEST.json"), "w") as f:
        json.dump(manifest, f, indent=1)
    print(f"{len(checks)} checks, {len(na)} not claimed")


if __name__ == "__main__":
    main()
