#!/venv/bin/python
"""Run every patch in /verif/mutants (or the ones named on the command line) through tools/try_seed.py."""
import glob
import os
import subprocess
import sys
from concurrent.futures import ThreadPoolExecutor

HERE = os.path.dirname(os.path.dirname(os.path.abspath(__file__)))


def one(path):
    prop = os.path.basename(path).split("-")[0]
    r = subprocess.run([os.path.join(HERE, "tools", "try_seed.py"), path, prop], capture_output=True, text=True)
    return path, r.returncode, r.stdout


def main():
    paths = sys.argv[1:] or sorted(glob.glob(os.path.join(HERE, "mutants", "*.patch")))
    jobs = int(os.environ.get("MUTANT_JOBS", "2"))
    missed = []
    with ThreadPoolExecutor(jobs) as ex:
        for path, rc, out in ex.map(one, paths):
            tests = next((ln for ln in out.splitlines() if ln.startswith("repo tests")), "?")
            chk = [ln for ln in out.splitlines() if ln.startswith("check ")]
            print(f"{os.path.basename(path):55s} {tests.replace('repo tests with patch: ', 'tests: ')[:40]:42s} {'; '.join(c[6:60] for c in chk)}", flush=True)
            if rc != 0:
                missed.append(path)
                for ln in out.splitlines():
                    if ln.startswith("    "):
                        print("      " + ln.strip()[:200])
    print(f"{len(paths) - len(missed)} caught, {len(missed)} not caught")
    for m in missed:
        print("  NOT CAUGHT:", os.path.basename(m))


if __name__ == "__main__":
    main()
