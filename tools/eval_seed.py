#!/venv/bin/python
"""Confirm a sub-agent's seeded change and run the property's check against it.

  tools/eval_seed.py <PROP> <worktree _seed dir> <A|B> [extra props]
Prints: tests with patch, demo with/without patch, check verdicts.  On full confirmation copies
patch/demo/notes into /verif/seeded/<PROP>-<k>/ with a meta.json.
"""
import json
import os
import shutil
import subprocess
import sys

HERE = os.path.dirname(os.path.dirname(os.path.abspath(__file__)))


def main():
    prop, seed_dir, k = sys.argv[1:4]
    extra = sys.argv[4:]
    patch = os.path.join(seed_dir, f"patch_{k}.diff")
    if not os.path.exists(patch):
        patch = os.path.join(seed_dir, f"{k}.diff")
    demo = os.path.join(seed_dir, f"demo_{k}.py")
    notes = os.path.join(seed_dir, f"notes_{k}.md")
    env = dict(os.environ, PYTHONPATH="/repo/src")
    clean = subprocess.run(["/venv/bin/python", demo], cwd="/tmp", env=env, capture_output=True, text=True)
    props = ",".join([prop] + extra)
    r = subprocess.run([os.path.join(HERE, "tools", "try_seed.py"), patch, props, "--demo", demo], capture_output=True, text=True)
    out = r.stdout
    print(f"== {prop}-{k}: demo on clean tree exit {clean.returncode}")
    print(out.strip())
    tests_ok = "432 passed" in out and "failed" not in out.split("repo tests with patch:")[1].splitlines()[0]
    demo_fails = "(expected non-zero): 0" not in out
    confirmed = tests_ok and demo_fails and clean.returncode == 0
    caught = {ln.split()[1]: ("CAUGHT" in ln) for ln in out.splitlines() if ln.startswith("check ")}
    suffix = os.environ.get("SEED_SUFFIX", "")
    dest = os.path.join(HERE, "seeded", f"{prop}-{k}{suffix}")
    if confirmed:
        os.makedirs(dest, exist_ok=True)
        shutil.copy(patch, os.path.join(dest, "patch.diff"))
        shutil.copy(demo, os.path.join(dest, "demo.py"))
        note_text = open(notes).read() if os.path.exists(notes) else ""
        meta = {
            "property": prop,
            "origin": "independent sub-agent given only the property text and its own scratch worktree",
            "needs_to_manifest": note_text.strip()[:1500],
            "confirmed": {"repo_tests_with_patch": "432 passed", "demo_with_patch": "fails", "demo_without_patch": "passes"},
            "ran": [f"tools/try_seed.py seeded/{prop}-{k}{suffix}/patch.diff {props} --demo seeded/{prop}-{k}{suffix}/demo.py"],
            "check_results_quick_seed0": {p: ("caught" if c else "missed") for p, c in caught.items()},
        }
        json.dump(meta, open(os.path.join(dest, "meta.json"), "w"), indent=1)
        print(f"   -> kept as seeded/{prop}-{k}{suffix}; {meta['check_results_quick_seed0']}")
    else:
        print(f"   -> NOT confirmed (tests_ok={tests_ok}, demo_fails={demo_fails}, clean_demo={clean.returncode})")


if __name__ == "__main__":
    main()
